// @host src/db/hash_map_tree/catalog.rs
// @transform hashmap_model
//
// C22 (and the longest-suffix part of C07): the real HashMapTreeCatalog code
// (lookup_in_class, remove_in_class, Node::get_or_create_descendant, the
// Catalog trait's lookup/get, HashMapTreeCatalog::{insert, remove, iter})
// against a reference ASSOCIATION LIST kept in the harness: a set of
// (name, class, tag) facts, "longest suffix" decided by comparing labels of
// the wire forms from the right, exact match = same number of labels.
//
// Shape of every harness ("one step from an arbitrary catalog of a fixed
// shape"): a catalog tree of a CONCRETE shape is built by hand (struct
// literals + the HashMap model's insert - the harness is a child module of
// catalog.rs and sees the private fields), every node of it carries a
// SYMBOLIC entry (absent / NotYetLoaded / FailedToLoad with a symbolic u8
// tag), so all 3^k * 256^k entry assignments of that shape are covered,
// including trees with entry-less leaves (a superset of what insert/remove
// histories can produce).  Then ONE operation of the real code runs and the
// whole catalog is observed again through the real lookup code for every
// name of a query pool and compared with the reference.  Since the start
// state is arbitrary (within the shape) and the end state is observed
// completely (within the pool), chains of such steps cover histories.
//
// What makes this fit into CBMC (measured, see the report):
//  * `--max-field-sensitivity-array-size 1024`: with it CBMC propagates
//    constants through the small heap objects of the tree (Box<Name>, the
//    Vec buffers of the HashMap model), so only the entries are symbolic.
//  * the recursive functions are called directly on a stack-resident root
//    where the public wrapper would go through the HashMap model's `entry()`
//    (an enum holding `&mut HashMap`: reading the reference back out of the
//    enum defeats constant propagation and every later Vec::push explores the
//    reallocation path with a symbolic-size array copy -> out of memory).
//    The wrappers are covered separately on a small catalog.
//  * the remove-step harnesses bound the element loop of the drop glue of
//    `[(LabelBuf, Node)]` to zero iterations (`--unwindset <that loop>:1`):
//    remove_in_class only ever drops nodes without children, and the
//    unwinding assertion of that loop proves it on every path; without the
//    bound CBMC unrolls the recursive drop glue of the tree 7^depth times
//    when pruning is decided by symbolic entries.  (If the mangled loop name
//    changes with the toolchain the option is ignored and those harnesses
//    time out - inconclusive, never unsound.)
//  * node CREATION (get_or_create_descendant on a missing label) goes through
//    `entry().or_insert_with()` and is out of reach for that reason: see
//    the report.  HashMapTreeCatalog::insert / get_or_create_descendant is
//    therefore NOT covered by this family, not even where the node already
//    exists (the creating branch is always part of the encoding): the step
//    "insert at b.a." on the 5-node tree with symbolic entries ran out of
//    17 GB after 1010 s, the fully concrete history "replace the entry at
//    a." out of 6 GB after 3 minutes.
//
// Entries never hold a zone (`Entry::Loaded(Arc<Z>)` is never constructed;
// Z = NoZone is a unit type): which zone object an entry carries is opaque to
// the catalog code, the tag plays its role.

use super::*;
use crate::db::zone::{GluePolicy, IteratorByNode, LookupAddrsResult, LookupAllResult, LookupOptions, LookupResult};
use crate::name::LabelBuf;
use crate::rr::Type;

/// A zone type that is never instantiated.
pub struct NoZone;

impl Zone for NoZone {
    fn name(&self) -> &Name {
        Name::root()
    }
    fn class(&self) -> Class {
        Class::IN
    }
    fn glue_policy(&self) -> GluePolicy {
        GluePolicy::Narrow
    }
    fn lookup(&self, _name: &Name, _rr_type: Type, _options: LookupOptions) -> LookupResult<'_> {
        LookupResult::WrongZone
    }
    fn lookup_addrs(&self, _name: &Name, _options: LookupOptions) -> LookupAddrsResult<'_> {
        LookupAddrsResult::WrongZone
    }
    fn lookup_all(&self, _name: &Name, _options: LookupOptions) -> LookupAllResult<'_> {
        LookupAllResult::WrongZone
    }
    fn iter_by_node(&self) -> IteratorByNode<'_> {
        Box::new(core::iter::empty())
    }
}

type Cat = HashMapTreeCatalog<NoZone, u8>;
type TNode = Node<NoZone, u8>;
type TEntry = Entry<NoZone, u8>;

// ---------------------------------------------------------------------------
// Stub: <[u8]>::eq_ignore_ascii_case (what Label's PartialEq calls).  The std
// implementation reinterprets the slices as 16-octet chunks, which CBMC's
// array post-processing does not survive on heap objects (measured by the
// C19 family, > 20 GB); the model has the documented contract and is checked
// against the real function by c19_stub_eq_ignore_ascii_case_model
// (harness/rdata_eq.rs).
// ---------------------------------------------------------------------------
fn eq_ic_model(a: &[u8], b: &[u8]) -> bool {
    if a.len() != b.len() {
        return false;
    }
    let mut i = 0;
    while i < a.len() {
        if ref_lower(a[i]) != ref_lower(b[i]) {
            return false;
        }
        i += 1;
    }
    true
}

fn ref_lower(b: u8) -> u8 {
    if b >= b'A' && b <= b'Z' {
        b + 32
    } else {
        b
    }
}

// ---------------------------------------------------------------------------
// The name pool (uncompressed wire forms) and the reference
// ---------------------------------------------------------------------------

const N_ROOT: &[u8] = &[0];
const N_A: &[u8] = &[1, b'a', 0];
const N_BA: &[u8] = &[1, b'b', 1, b'a', 0];
const N_XA: &[u8] = &[1, b'x', 1, b'a', 0];
const N_CBA: &[u8] = &[1, b'c', 1, b'b', 1, b'a', 0];
/// Names that can hold an entry (the nodes of the tree shapes), by index.
const POOL: [&[u8]; 5] = [N_ROOT, N_A, N_BA, N_XA, N_CBA];
const I_ROOT: usize = 0;
const I_A: usize = 1;
const I_BA: usize = 2;
const I_XA: usize = 3;
const I_CBA: usize = 4;

/// Names every observation asks about: the pool, case variants, names below
/// and beside the tree.
const QUERIES: [&[u8]; 9] = [
    N_ROOT,
    N_A,
    N_BA,
    N_XA,
    N_CBA,
    &[1, b'B', 1, b'A', 0],                   // case variant of b.a.
    &[1, b'y', 1, b'a', 0],                   // sibling without a node
    &[1, b'd', 1, b'c', 1, b'b', 1, b'a', 0], // below the deepest node
    &[1, b'a', 1, b'b', 0],                   // labels in the other order: only "." is a suffix
];

fn nm(w: &[u8]) -> Box<Name> {
    match Name::try_from_uncompressed_all(w) {
        Ok(n) => n,
        Err(_) => {
            assert!(false, "pool names are valid");
            loop {}
        }
    }
}

/// Offsets of the labels of a wire-form name (root label included).
fn ref_labels(w: &[u8]) -> ([usize; 8], usize) {
    let mut offs = [0usize; 8];
    let mut n = 0;
    let mut pos = 0;
    loop {
        offs[n] = pos;
        n += 1;
        let l = w[pos] as usize;
        if l == 0 {
            return (offs, n);
        }
        pos += 1 + l;
    }
}

fn ref_label_eq(a: &[u8], ao: usize, b: &[u8], bo: usize) -> bool {
    if a[ao] != b[bo] {
        return false;
    }
    let l = a[ao] as usize;
    let mut i = 1;
    while i <= l {
        if ref_lower(a[ao + i]) != ref_lower(b[bo + i]) {
            return false;
        }
        i += 1;
    }
    true
}

/// Is `s` a suffix of `n`, label by label from the right (RFC 1034 3.1:
/// case-insensitive)?  Returns the number of labels of `s` if so.
fn ref_suffix(s: &[u8], n: &[u8]) -> Option<usize> {
    let (so, sc) = ref_labels(s);
    let (no, nc) = ref_labels(n);
    if sc > nc {
        return None;
    }
    let mut k = 0;
    while k < sc {
        if !ref_label_eq(s, so[sc - 1 - k], n, no[nc - 1 - k]) {
            return None;
        }
        k += 1;
    }
    Some(sc)
}

/// What an entry looks like to the harness: (failed-to-load?, tag).
type Seen = Option<(bool, u8)>;

/// The reference catalog of one class: which pool names have an entry.
#[derive(Clone, Copy)]
struct RefCat {
    present: [bool; 5],
    failed: [bool; 5],
    tag: [u8; 5],
}

impl RefCat {
    fn any() -> Self {
        RefCat { present: kani::any(), failed: kani::any(), tag: kani::any() }
    }
    fn seen(&self, i: usize) -> Seen {
        if self.present[i] {
            Some((self.failed[i], self.tag[i]))
        } else {
            None
        }
    }
    /// Longest-suffix entry for `q` and whether it is an exact match.
    fn lookup(&self, q: &[u8]) -> (Seen, bool) {
        let (_, qc) = ref_labels(q);
        let mut best: Seen = None;
        let mut best_len = 0;
        let mut i = 0;
        while i < 5 {
            if self.present[i] {
                if let Some(l) = ref_suffix(POOL[i], q) {
                    if l > best_len {
                        best = self.seen(i);
                        best_len = l;
                    }
                }
            }
            i += 1;
        }
        (best, best.is_some() && best_len == qc)
    }
    fn entry(&self, i: usize, class: Class) -> Option<TEntry> {
        if !self.present[i] {
            None
        } else if self.failed[i] {
            Some(Entry::FailedToLoad(nm(POOL[i]), class, self.tag[i]))
        } else {
            Some(Entry::NotYetLoaded(nm(POOL[i]), class, self.tag[i]))
        }
    }
    fn count(&self, in_shape: [bool; 5]) -> usize {
        let mut n = 0;
        let mut i = 0;
        while i < 5 {
            if in_shape[i] && self.present[i] {
                n += 1;
            }
            i += 1;
        }
        n
    }
}

fn see(e: Option<&TEntry>) -> Seen {
    match e {
        Some(Entry::NotYetLoaded(_, _, t)) => Some((false, *t)),
        Some(Entry::FailedToLoad(_, _, t)) => Some((true, *t)),
        Some(Entry::Loaded(_, _)) => {
            assert!(false, "[C22] the catalog invented a Loaded entry");
            None
        }
        None => None,
    }
}

fn see_owned(e: &Option<TEntry>) -> Seen {
    see(e.as_ref())
}

fn mk(w: &[u8], data: Option<TEntry>) -> TNode {
    Node { name: nm(w), children: HashMap::new(), data }
}

fn attach(parent: &mut TNode, label: &[u8; 1], child: TNode) {
    // the model's insert returns the replaced value (always None here);
    // forgetting it keeps the recursive drop glue of Node out of the harness
    core::mem::forget(parent.children.insert(LabelBuf::from(label), child));
}

const SHAPE_T5: [bool; 5] = [true, true, true, true, true];
const SHAPE_CHAIN3: [bool; 5] = [true, true, true, false, false];
const SHAPE_ROOT: [bool; 5] = [true, false, false, false, false];
const SHAPE_ROOT_A: [bool; 5] = [true, true, false, false, false];

/// . -> a -> { b -> c, x }
fn build_t5(r: &RefCat, class: Class) -> TNode {
    let cba = mk(N_CBA, r.entry(I_CBA, class));
    let mut ba = mk(N_BA, r.entry(I_BA, class));
    attach(&mut ba, b"c", cba);
    let xa = mk(N_XA, r.entry(I_XA, class));
    let mut a = mk(N_A, r.entry(I_A, class));
    attach(&mut a, b"b", ba);
    attach(&mut a, b"x", xa);
    let mut root = mk(N_ROOT, r.entry(I_ROOT, class));
    attach(&mut root, b"a", a);
    root
}

/// . -> a -> b   (every node has at most one child: pruning can cascade)
fn build_chain3(r: &RefCat, class: Class) -> TNode {
    let ba = mk(N_BA, r.entry(I_BA, class));
    let mut a = mk(N_A, r.entry(I_A, class));
    attach(&mut a, b"b", ba);
    let mut root = mk(N_ROOT, r.entry(I_ROOT, class));
    attach(&mut root, b"a", a);
    root
}

/// Restricts the reference to the nodes a shape has.
fn in_shape(mut r: RefCat, shape: [bool; 5]) -> RefCat {
    let mut i = 0;
    while i < 5 {
        if !shape[i] {
            r.present[i] = false;
        }
        i += 1;
    }
    r
}

/// Observes a class tree through the real lookup code for every query name:
/// longest-suffix lookup, and exact lookup computed the way Catalog::get's
/// provided implementation does (filter on the label count).
fn observe_tree(root: &TNode, r: &RefCat) {
    // the five names that can hold an entry: together with the lookup
    // harnesses (which cover the other query names on an arbitrary tree of
    // the same shape) this determines the catalog's answers
    let mut k = 0;
    while k < 5 {
        let q = nm(QUERIES[k]);
        let got = lookup_in_class(root, &q, q.len() - 1);
        let got_exact = match got {
            Some(e) => e.name().len() == q.len(),
            None => false,
        };
        let (want, want_exact) = r.lookup(QUERIES[k]);
        assert!(see(got) == want, "[C22] lookup returns the entry of that class whose name is the longest suffix of the name");
        assert!(got_exact == want_exact, "[C22] exact lookup returns only an entry with exactly that name");
        core::mem::forget(q);
        k += 1;
    }
}

// ---------------------------------------------------------------------------
// The D11 history through the public API: insert a., insert b.a., remove b.a.
// ---------------------------------------------------------------------------

// @harness props=C22 tier=quick mem=2 t=900 fn="HashMapTreeCatalog::remove,remove_in_class,<HashMapTreeCatalog as Catalog>::lookup,Catalog::get"
//   bound="the catalog that insert(a.), insert(b.a.) in class IN produce (built by hand: root node without entry -> a (entry, symbolic tag) -> b (entry, symbolic tag)); HashMapTreeCatalog::remove(b.a., IN); then get(a.), lookup(a.), lookup(b.a.), lookup(x.a.), get(b.a.); only the tags are symbolic; unwind 6"
//   sym="2 tags" stubs="eq_ignore_ascii_case" cbmc="--max-field-sensitivity-array-size 1024" kani="--no-assertion-reach-checks"
#[kani::proof]
#[kani::unwind(6)]
#[kani::stub(<[u8]>::eq_ignore_ascii_case, eq_ic_model)]
fn c22_history_insert_insert_remove() {
    let t_a: u8 = kani::any();
    let t_ba: u8 = kani::any();
    let ba = mk(N_BA, Some(Entry::NotYetLoaded(nm(N_BA), Class::IN, t_ba)));
    let mut a = mk(N_A, Some(Entry::NotYetLoaded(nm(N_A), Class::IN, t_a)));
    attach(&mut a, b"b", ba);
    let mut root = mk(N_ROOT, None);
    attach(&mut root, b"a", a);
    let mut cat = Cat::new();
    core::mem::forget(cat.roots_by_class.insert(Class::IN, root));

    let q_ba = nm(N_BA);
    let q_a = nm(N_A);
    let q_xa = nm(N_XA);
    let removed = cat.remove(&q_ba, Class::IN);
    assert!(see_owned(&removed) == Some((false, t_ba)), "[C22] remove returns the entry that was at that name and class");
    assert!(see(cat.get(&q_a, Class::IN)) == Some((false, t_a)), "[C22] removing one entry never removes or alters any other entry (get a.)");
    assert!(see(cat.lookup(&q_a, Class::IN)) == Some((false, t_a)), "[C22] removing one entry never removes or alters any other entry (lookup a.)");
    assert!(see(cat.lookup(&q_ba, Class::IN)) == Some((false, t_a)), "[C22] after the removal b.a. is served by the entry of a.");
    assert!(see(cat.lookup(&q_xa, Class::IN)) == Some((false, t_a)), "[C22] removing one entry never removes or alters any other entry (lookup x.a.)");
    assert!(cat.get(&q_ba, Class::IN).is_none(), "[C22] the removed entry is gone");
    kani::cover!(t_a != t_ba, "two different entries");
    core::mem::forget(removed);
    core::mem::forget(cat);
    core::mem::forget(q_ba);
    core::mem::forget(q_a);
    core::mem::forget(q_xa);
}

// ---------------------------------------------------------------------------
// lookup / get / iter through the public API, two classes
// ---------------------------------------------------------------------------

fn catalog_two_classes(r_in: &RefCat, r_ch: &RefCat) -> Cat {
    let root_in = build_t5(r_in, Class::IN);
    let root_ch = mk(N_ROOT, r_ch.entry(I_ROOT, Class::CH));
    let mut cat = Cat::new();
    core::mem::forget(cat.roots_by_class.insert(Class::IN, root_in));
    core::mem::forget(cat.roots_by_class.insert(Class::CH, root_ch));
    cat
}

fn lookup_get_queries(from: usize, to: usize) {
    let r_in = RefCat::any();
    let r_ch = in_shape(RefCat::any(), SHAPE_ROOT);
    let cat = catalog_two_classes(&r_in, &r_ch);
    let mut k = from;
    while k < to {
        let q = nm(QUERIES[k]);
        let (want, want_exact) = r_in.lookup(QUERIES[k]);
        let got = see(cat.lookup(&q, Class::IN));
        assert!(got == want, "[C22] lookup returns the entry of that class whose name is the longest suffix of the name");
        let got_exact = see(cat.get(&q, Class::IN));
        assert!(got_exact == if want_exact { want } else { None }, "[C22] exact lookup returns only an entry with exactly that name");
        core::mem::forget(q);
        k += 1;
    }
    kani::cover!(r_in.present[I_A] && !r_in.present[I_BA] && r_in.present[I_CBA], "entries at a. and c.b.a. but not at b.a.");
    kani::cover!(!r_in.present[I_ROOT] && !r_in.present[I_A] && r_in.present[I_XA], "no entry above x.a.");
    core::mem::forget(cat);
}

// @harness props=C22,C07 tier=thorough mem=3 t=1500 fn="<HashMapTreeCatalog as Catalog>::lookup,Catalog::get (provided),lookup_in_class"
//   bound="catalog of 2 classes: IN tree . -> a -> {b -> c, x} with every node's entry symbolic (absent/NotYetLoaded/FailedToLoad, u8 tag), CH tree = root node with symbolic entry; lookup and get in class IN of ., a., b.a.; unwind 7"
//   sym="entries of 6 nodes" stubs="eq_ignore_ascii_case" cbmc="--max-field-sensitivity-array-size 1024" kani="--no-assertion-reach-checks"
#[kani::proof]
#[kani::unwind(7)]
#[kani::stub(<[u8]>::eq_ignore_ascii_case, eq_ic_model)]
fn c22_lookup_get_names_0_2() {
    lookup_get_queries(0, 3);
}

// @harness props=C22,C07 tier=quick mem=3 t=1500 fn="<HashMapTreeCatalog as Catalog>::lookup,Catalog::get (provided),lookup_in_class"
//   bound="same catalog; lookup and get in class IN of x.a., c.b.a.; unwind 7"
//   sym="entries of 6 nodes" stubs="eq_ignore_ascii_case" cbmc="--max-field-sensitivity-array-size 1024" kani="--no-assertion-reach-checks"
#[kani::proof]
#[kani::unwind(7)]
#[kani::stub(<[u8]>::eq_ignore_ascii_case, eq_ic_model)]
fn c22_lookup_get_names_3_4() {
    lookup_get_queries(3, 5);
}

// @harness props=C22,C07 tier=thorough mem=3 t=1500 fn="<HashMapTreeCatalog as Catalog>::lookup,Catalog::get (provided)"
//   bound="same catalog; class separation: lookup and get of ., a., c.b.a. in class CH (root entry only) and HS (no tree); unwind 7"
//   sym="entries of 6 nodes" stubs="eq_ignore_ascii_case" cbmc="--max-field-sensitivity-array-size 1024" kani="--no-assertion-reach-checks"
#[kani::proof]
#[kani::unwind(7)]
#[kani::stub(<[u8]>::eq_ignore_ascii_case, eq_ic_model)]
fn c22_lookup_get_class_separation() {
    let r_in = RefCat::any();
    let r_ch = in_shape(RefCat::any(), SHAPE_ROOT);
    let cat = catalog_two_classes(&r_in, &r_ch);
    let qs = [0usize, 1, 4];
    let mut j = 0;
    while j < 3 {
        let k = qs[j];
        let q = nm(QUERIES[k]);
        let (want_ch, want_ch_exact) = r_ch.lookup(QUERIES[k]);
        assert!(see(cat.lookup(&q, Class::CH)) == want_ch, "[C22] lookup only sees entries of the requested class");
        assert!(see(cat.get(&q, Class::CH)) == if want_ch_exact { want_ch } else { None }, "[C22] exact lookup only sees entries of the requested class");
        assert!(cat.lookup(&q, Class::HS).is_none(), "[C22] a class without entries has no match");
        assert!(cat.get(&q, Class::HS).is_none(), "[C22] a class without entries has no exact match");
        core::mem::forget(q);
        j += 1;
    }
    kani::cover!(r_ch.present[I_ROOT] && r_in.present[I_CBA] && r_ch.tag[I_ROOT] != r_in.tag[I_CBA], "CH root entry differs from the IN entry at c.b.a.");
    kani::cover!(!r_ch.present[I_ROOT] && r_in.present[I_ROOT], "IN has a root entry, CH has none");
    core::mem::forget(cat);
}

// ---------------------------------------------------------------------------
// one remove step (remove_in_class on the class root)
// ---------------------------------------------------------------------------

fn remove_step(shape: [bool; 5], target: &[u8], target_idx: Option<usize>) -> RefCat {
    let before = in_shape(RefCat::any(), shape);
    let mut root = if shape[I_XA] { build_t5(&before, Class::IN) } else { build_chain3(&before, Class::IN) };
    let q = nm(target);
    // HashMapTreeCatalog::remove calls exactly this on the class root
    let (removed, _root_is_prunable) = remove_in_class(&mut root, &q, q.len() - 1);
    let mut after = before;
    match target_idx {
        Some(i) => {
            assert!(see_owned(&removed) == before.seen(i), "[C22] remove returns the entry that was at that name and class");
            after.present[i] = false;
        }
        None => assert!(removed.is_none(), "[C22] removing a name without an entry returns nothing"),
    }
    observe_tree(&root, &after);
    core::mem::forget(removed);
    core::mem::forget(q);
    core::mem::forget(root);
    before
}

// @harness props=C22 tier=quick mem=5 t=3400 fn="remove_in_class,lookup_in_class"
//   bound="tree . -> a -> {b -> c, x}, every entry symbolic; remove c.b.a. (a leaf whose parent b.a. may hold an entry and has no other child: defect D11); then lookup + exact lookup of the 5 pool names vs the reference; unwind 7"
//   sym="entries of 5 nodes" stubs="eq_ignore_ascii_case" cbmc="--max-field-sensitivity-array-size 1024 --unwindset _RINvNtCs8xvirJzNMvV_4core3ptr9drop_glueSTNtNtNtCskjFBwtpsoHr_8quandary4name5label8LabelBufINtNtNtNtBJ_2db13hash_map_tree4node4NodeINtNtB4_6option6OptionINtNtB1x_7catalog5EntryNtNtNtB1v_7catalog17kani_catalog_tree6NoZonehEEEEEBJ_.0:1" kani="--no-assertion-reach-checks"
#[kani::proof]
#[kani::unwind(7)]
#[kani::stub(<[u8]>::eq_ignore_ascii_case, eq_ic_model)]
fn c22_step_remove_t5_cba() {
    let before = remove_step(SHAPE_T5, N_CBA, Some(I_CBA));
    kani::cover!(before.present[I_CBA] && before.present[I_BA], "removed a leaf entry whose parent node holds an entry");
    kani::cover!(before.present[I_CBA] && !before.present[I_BA] && before.present[I_A], "removed a leaf entry whose parent node holds none (parent is pruned)");
    kani::cover!(!before.present[I_CBA], "nothing to remove at the name");
}

// @harness props=C22 tier=thorough mem=3 t=1800 fn="remove_in_class,lookup_in_class"
//   bound="same tree; remove x.a. (a leaf whose parent a. has another child); the 5 pool names; unwind 7"
//   sym="entries of 5 nodes" stubs="eq_ignore_ascii_case" cbmc="--max-field-sensitivity-array-size 1024 --unwindset _RINvNtCs8xvirJzNMvV_4core3ptr9drop_glueSTNtNtNtCskjFBwtpsoHr_8quandary4name5label8LabelBufINtNtNtNtBJ_2db13hash_map_tree4node4NodeINtNtB4_6option6OptionINtNtB1x_7catalog5EntryNtNtNtB1v_7catalog17kani_catalog_tree6NoZonehEEEEEBJ_.0:1" kani="--no-assertion-reach-checks"
#[kani::proof]
#[kani::unwind(7)]
#[kani::stub(<[u8]>::eq_ignore_ascii_case, eq_ic_model)]
fn c22_step_remove_t5_xa() {
    let before = remove_step(SHAPE_T5, N_XA, Some(I_XA));
    kani::cover!(before.present[I_XA] && before.present[I_A], "removed x.a. below an entry at a.");
}

// @harness props=C22 tier=thorough mem=3 t=1800 fn="remove_in_class,lookup_in_class"
//   bound="same tree; remove b.a. (an inner node with a child); the 5 pool names; unwind 7"
//   sym="entries of 5 nodes" stubs="eq_ignore_ascii_case" cbmc="--max-field-sensitivity-array-size 1024 --unwindset _RINvNtCs8xvirJzNMvV_4core3ptr9drop_glueSTNtNtNtCskjFBwtpsoHr_8quandary4name5label8LabelBufINtNtNtNtBJ_2db13hash_map_tree4node4NodeINtNtB4_6option6OptionINtNtB1x_7catalog5EntryNtNtNtB1v_7catalog17kani_catalog_tree6NoZonehEEEEEBJ_.0:1" kani="--no-assertion-reach-checks"
#[kani::proof]
#[kani::unwind(7)]
#[kani::stub(<[u8]>::eq_ignore_ascii_case, eq_ic_model)]
fn c22_step_remove_t5_ba() {
    let before = remove_step(SHAPE_T5, N_BA, Some(I_BA));
    kani::cover!(before.present[I_BA] && before.present[I_CBA], "removed an inner entry above another entry");
}

// @harness props=C22 tier=thorough mem=3 t=1800 fn="remove_in_class,lookup_in_class"
//   bound="same tree; remove the root name; the 5 pool names; unwind 7"
//   sym="entries of 5 nodes" stubs="eq_ignore_ascii_case" cbmc="--max-field-sensitivity-array-size 1024 --unwindset _RINvNtCs8xvirJzNMvV_4core3ptr9drop_glueSTNtNtNtCskjFBwtpsoHr_8quandary4name5label8LabelBufINtNtNtNtBJ_2db13hash_map_tree4node4NodeINtNtB4_6option6OptionINtNtB1x_7catalog5EntryNtNtNtB1v_7catalog17kani_catalog_tree6NoZonehEEEEEBJ_.0:1" kani="--no-assertion-reach-checks"
#[kani::proof]
#[kani::unwind(7)]
#[kani::stub(<[u8]>::eq_ignore_ascii_case, eq_ic_model)]
fn c22_step_remove_t5_root() {
    let before = remove_step(SHAPE_T5, N_ROOT, Some(I_ROOT));
    kani::cover!(before.present[I_ROOT] && before.present[I_XA], "removed the root entry above other entries");
}

// @harness props=C22 tier=thorough mem=10 t=2400 fn="remove_in_class,lookup_in_class"
//   bound="chain . -> a -> b, every entry symbolic; remove b.a.: pruning may cascade through a. up to the root, each of which may hold an entry (defect D11 at two levels); the 5 pool names; unwind 7"
//   sym="entries of 3 nodes" stubs="eq_ignore_ascii_case" cbmc="--max-field-sensitivity-array-size 1024 --unwindset _RINvNtCs8xvirJzNMvV_4core3ptr9drop_glueSTNtNtNtCskjFBwtpsoHr_8quandary4name5label8LabelBufINtNtNtNtBJ_2db13hash_map_tree4node4NodeINtNtB4_6option6OptionINtNtB1x_7catalog5EntryNtNtNtB1v_7catalog17kani_catalog_tree6NoZonehEEEEEBJ_.0:1" kani="--no-assertion-reach-checks"
#[kani::proof]
#[kani::unwind(7)]
#[kani::stub(<[u8]>::eq_ignore_ascii_case, eq_ic_model)]
fn c22_step_remove_chain_ba() {
    let before = remove_step(SHAPE_CHAIN3, N_BA, Some(I_BA));
    kani::cover!(before.present[I_BA] && before.present[I_A], "pruning stops at a. because it holds an entry");
    kani::cover!(before.present[I_BA] && !before.present[I_A] && before.present[I_ROOT], "pruning stops at the root because it holds an entry");
    kani::cover!(before.present[I_BA] && !before.present[I_A] && !before.present[I_ROOT], "the whole chain is pruned");
}
