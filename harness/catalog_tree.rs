// @host src/db/hash_map_tree/catalog.rs
// @transform hashmap_model
//
// C22: HashMapTreeCatalog histories against a reference association list.
// (probe version)

use super::*;
use crate::db::zone::{GluePolicy, IteratorByNode, LookupAddrsResult, LookupAllResult, LookupOptions, LookupResult};
use crate::rr::Type;

/// A zone type that is never instantiated: catalog entries in these harnesses
/// are always `Entry::NotYetLoaded` / `Entry::FailedToLoad`.
pub struct NoZone;

impl Zone for NoZone {
    fn name(&self) -> &Name {
        Name::root()
    }
    fn class(&self) -> Class {
        Class::IN
    }
    fn glue_policy(&self) -> GluePolicy {
        GluePolicy::Narrow
    }
    fn lookup(&self, _name: &Name, _rr_type: Type, _options: LookupOptions) -> LookupResult {
        LookupResult::WrongZone
    }
    fn lookup_addrs(&self, _name: &Name, _options: LookupOptions) -> LookupAddrsResult {
        LookupAddrsResult::WrongZone
    }
    fn lookup_all(&self, _name: &Name, _options: LookupOptions) -> LookupAllResult {
        LookupAllResult::WrongZone
    }
    fn iter_by_node(&self) -> IteratorByNode {
        Box::new(core::iter::empty())
    }
}

type Cat = HashMapTreeCatalog<NoZone, u8>;

fn nm<const N: usize>(w: [u8; N]) -> Box<Name> {
    match Name::try_from_uncompressed_all(&w) {
        Ok(n) => n,
        Err(_) => {
            assert!(false, "pool name is valid");
            loop {}
        }
    }
}

fn eq_ic_model(a: &[u8], b: &[u8]) -> bool {
    if a.len() != b.len() {
        return false;
    }
    let mut i = 0;
    while i < a.len() {
        let x = if a[i] >= b'A' && a[i] <= b'Z' { a[i] + 32 } else { a[i] };
        let y = if b[i] >= b'A' && b[i] <= b'Z' { b[i] + 32 } else { b[i] };
        if x != y {
            return false;
        }
        i += 1;
    }
    true
}

fn tag_of(e: Option<&Entry<NoZone, u8>>) -> Option<u8> {
    match e {
        Some(Entry::NotYetLoaded(_, _, t)) => Some(*t),
        Some(_) => Some(255),
        None => None,
    }
}

// @harness props=C22 tier=quick mem=4 t=900 fn="HashMapTreeCatalog::insert,lookup"
//   bound="probe" sym="tag" stubs="eq_ignore_ascii_case"
#[kani::proof]
#[kani::unwind(6)]
#[kani::stub(<[u8]>::eq_ignore_ascii_case, eq_ic_model)]
fn c22_probe_insert_lookup() {
    let t: u8 = kani::any();
    kani::assume(t < 200);
    let mut cat = Cat::new();
    let a = nm([1, b'a', 0]);
    let ba = nm([1, b'b', 1, b'a', 0]);
    cat.insert(Entry::NotYetLoaded(nm([1, b'a', 0]), Class::IN, t));
    let r = tag_of(cat.lookup(&ba, Class::IN));
    assert!(r == Some(t), "[C22] lookup finds the longest-suffix entry");
    let g = tag_of(cat.get(&ba, Class::IN));
    assert!(g.is_none(), "[C22] get is exact");
    let g2 = tag_of(cat.get(&a, Class::IN));
    assert!(g2 == Some(t), "[C22] get finds the exact entry");
    kani::cover!(r == Some(7), "witness");
    core::mem::forget(cat);
    core::mem::forget(a);
    core::mem::forget(ba);
}

// @harness props=C22 tier=quick mem=4 t=900 fn="HashMapTreeCatalog::insert,remove,get"
//   bound="probe D11" sym="tags" stubs="eq_ignore_ascii_case"
#[kani::proof]
#[kani::unwind(6)]
#[kani::stub(<[u8]>::eq_ignore_ascii_case, eq_ic_model)]
fn c22_probe_d11() {
    let t1: u8 = kani::any();
    let t2: u8 = kani::any();
    kani::assume(t1 < 200 && t2 < 200);
    let mut cat = Cat::new();
    let a = nm([1, b'a', 0]);
    let ba = nm([1, b'b', 1, b'a', 0]);
    cat.insert(Entry::NotYetLoaded(nm([1, b'a', 0]), Class::IN, t1));
    cat.insert(Entry::NotYetLoaded(nm([1, b'b', 1, b'a', 0]), Class::IN, t2));
    let removed = cat.remove(&ba, Class::IN);
    assert!(tag_of(removed.as_ref()) == Some(t2), "[C22] remove returns the removed entry");
    let g = tag_of(cat.get(&a, Class::IN));
    assert!(g == Some(t1), "[C22] removing one entry leaves the others in place");
    kani::cover!(g == Some(7), "witness");
    core::mem::forget(removed);
    core::mem::forget(cat);
    core::mem::forget(a);
    core::mem::forget(ba);
}


// ---------------------------------------------------------------------------
// experiments: hand-built tree
// ---------------------------------------------------------------------------
use crate::name::LabelBuf;

fn any_entry<const N: usize>(w: [u8; N]) -> Option<Entry<NoZone, u8>> {
    let present: bool = kani::any();
    let t: u8 = kani::any();
    if present {
        Some(Entry::NotYetLoaded(nm(w), Class::IN, t))
    } else {
        None
    }
}

fn mk(name: Box<Name>, data: Option<Entry<NoZone, u8>>) -> Node<NoZone, u8> {
    Node { name, children: HashMap::new(), data }
}

fn etag(e: &Option<Entry<NoZone, u8>>) -> Option<u8> {
    match e {
        Some(Entry::NotYetLoaded(_, _, t)) => Some(*t),
        Some(_) => Some(255),
        None => None,
    }
}

// @harness props=C22 tier=quick mem=4 t=900 fn="lookup_in_class"
//   bound="experiment M1" sym="entries" stubs="eq_ignore_ascii_case"
#[kani::proof]
#[kani::unwind(6)]
#[kani::stub(<[u8]>::eq_ignore_ascii_case, eq_ic_model)]
fn c22_m1_lookup() {
    let e_root = any_entry([0]);
    let e_a = any_entry([1, b'a', 0]);
    let e_ba = any_entry([1, b'b', 1, b'a', 0]);
    let e_xa = any_entry([1, b'x', 1, b'a', 0]);
    let e_cba = any_entry([1, b'c', 1, b'b', 1, b'a', 0]);
    let (t_root, t_a, t_ba, t_xa, t_cba) = (etag(&e_root), etag(&e_a), etag(&e_ba), etag(&e_xa), etag(&e_cba));
    let cba = mk(nm([1, b'c', 1, b'b', 1, b'a', 0]), e_cba);
    let mut ba = mk(nm([1, b'b', 1, b'a', 0]), e_ba);
    core::mem::forget(ba.children.insert(LabelBuf::from(b"c"), cba));
    let xa = mk(nm([1, b'x', 1, b'a', 0]), e_xa);
    let mut a = mk(nm([1, b'a', 0]), e_a);
    core::mem::forget(a.children.insert(LabelBuf::from(b"b"), ba));
    core::mem::forget(a.children.insert(LabelBuf::from(b"x"), xa));
    let mut root = mk(nm([0]), e_root);
    core::mem::forget(root.children.insert(LabelBuf::from(b"a"), a));
    let mut cat = Cat::new();
    core::mem::forget(cat.roots_by_class.insert(Class::IN, root));

    let q = nm([1, b'c', 1, b'b', 1, b'a', 0]);
    let r = tag_of(cat.lookup(&q, Class::IN));
    let want = if t_cba.is_some() { t_cba } else if t_ba.is_some() { t_ba } else if t_a.is_some() { t_a } else { t_root };
    assert!(r == want, "[C22] lookup returns the deepest entry on the path");
    kani::cover!(r == Some(7) && t_cba.is_none() && t_ba.is_none(), "witness: found at a.");
    core::mem::forget(cat);
    core::mem::forget(q);
}


fn build5(
    e_root: Option<Entry<NoZone, u8>>,
    e_a: Option<Entry<NoZone, u8>>,
    e_ba: Option<Entry<NoZone, u8>>,
    e_xa: Option<Entry<NoZone, u8>>,
    e_cba: Option<Entry<NoZone, u8>>,
) -> Cat {
    let cba = mk(nm([1, b'c', 1, b'b', 1, b'a', 0]), e_cba);
    let mut ba = mk(nm([1, b'b', 1, b'a', 0]), e_ba);
    core::mem::forget(ba.children.insert(LabelBuf::from(b"c"), cba));
    let xa = mk(nm([1, b'x', 1, b'a', 0]), e_xa);
    let mut a = mk(nm([1, b'a', 0]), e_a);
    core::mem::forget(a.children.insert(LabelBuf::from(b"b"), ba));
    core::mem::forget(a.children.insert(LabelBuf::from(b"x"), xa));
    let mut root = mk(nm([0]), e_root);
    core::mem::forget(root.children.insert(LabelBuf::from(b"a"), a));
    let mut cat = Cat::new();
    core::mem::forget(cat.roots_by_class.insert(Class::IN, root));
    cat
}

// @harness props=C22 tier=quick mem=4 t=900 fn="remove_in_class"
//   bound="experiment M2" sym="entries" stubs="eq_ignore_ascii_case"
#[kani::proof]
#[kani::unwind(6)]
#[kani::stub(<[u8]>::eq_ignore_ascii_case, eq_ic_model)]
fn c22_m2_remove() {
    let e_root = any_entry([0]);
    let e_a = any_entry([1, b'a', 0]);
    let e_ba = any_entry([1, b'b', 1, b'a', 0]);
    let e_xa = any_entry([1, b'x', 1, b'a', 0]);
    let e_cba = any_entry([1, b'c', 1, b'b', 1, b'a', 0]);
    let (t_root, t_a, t_ba, t_xa, t_cba) = (etag(&e_root), etag(&e_a), etag(&e_ba), etag(&e_xa), etag(&e_cba));
    let mut cat = build5(e_root, e_a, e_ba, e_xa, e_cba);

    let q = nm([1, b'c', 1, b'b', 1, b'a', 0]);
    let removed = cat.remove(&q, Class::IN);
    assert!(etag(&removed) == t_cba, "[C22] remove returns the entry that was at the name");
    let qa = nm([1, b'a', 0]);
    let r = tag_of(cat.get(&qa, Class::IN));
    assert!(r == t_a, "[C22] removing one entry leaves the others in place");
    kani::cover!(r == Some(7) && t_cba.is_some() && t_ba.is_none(), "witness");
    core::mem::forget(removed);
    core::mem::forget(cat);
    core::mem::forget(q);
    core::mem::forget(qa);
}


#[kani::proof]
#[kani::unwind(6)]
#[kani::stub(<[u8]>::eq_ignore_ascii_case, eq_ic_model)]
fn c22_e1_remove_only() {
    let e_root = any_entry([0]);
    let e_a = any_entry([1, b'a', 0]);
    let e_ba = any_entry([1, b'b', 1, b'a', 0]);
    let e_xa = any_entry([1, b'x', 1, b'a', 0]);
    let e_cba = any_entry([1, b'c', 1, b'b', 1, b'a', 0]);
    let (t_root, t_a, t_ba, t_xa, t_cba) = (etag(&e_root), etag(&e_a), etag(&e_ba), etag(&e_xa), etag(&e_cba));
    let mut cat = build5(e_root, e_a, e_ba, e_xa, e_cba);
    let q = nm([1, b'x', 1, b'a', 0]);
    let removed = cat.remove(&q, Class::IN);
    assert!(etag(&removed) == t_xa, "[C22] remove returns the entry that was at the name");
    kani::cover!(t_xa == Some(7), "witness");
    core::mem::forget(removed);
    core::mem::forget(cat);
    core::mem::forget(q);
}

#[kani::proof]
#[kani::unwind(6)]
#[kani::stub(<[u8]>::eq_ignore_ascii_case, eq_ic_model)]
fn c22_e2_small_remove() {
    let e_root = any_entry([0]);
    let e_a = any_entry([1, b'a', 0]);
    let (t_root, t_a) = (etag(&e_root), etag(&e_a));
    let a = mk(nm([1, b'a', 0]), e_a);
    let mut root = mk(nm([0]), e_root);
    core::mem::forget(root.children.insert(LabelBuf::from(b"a"), a));
    let mut cat = Cat::new();
    core::mem::forget(cat.roots_by_class.insert(Class::IN, root));
    let q = nm([1, b'a', 0]);
    let removed = cat.remove(&q, Class::IN);
    assert!(etag(&removed) == t_a, "[C22] remove returns the entry that was at the name");
    let q0 = nm([0]);
    let r = tag_of(cat.get(&q0, Class::IN));
    assert!(r == t_root, "[C22] removing one entry leaves the others in place");
    kani::cover!(t_a == Some(7), "witness");
    core::mem::forget(removed);
    core::mem::forget(cat);
    core::mem::forget(q);
    core::mem::forget(q0);
}


#[kani::proof]
#[kani::unwind(6)]
#[kani::stub(<[u8]>::eq_ignore_ascii_case, eq_ic_model)]
fn c22_e3_insert_create() {
    let e_root = any_entry([0]);
    let t_root = etag(&e_root);
    let root = mk(nm([0]), e_root);
    let mut cat = Cat::new();
    core::mem::forget(cat.roots_by_class.insert(Class::IN, root));
    let t: u8 = kani::any();
    let old = cat.insert(Entry::NotYetLoaded(nm([1, b'a', 0]), Class::IN, t));
    assert!(old.is_none(), "[C22] insert returns the replaced entry");
    let q0 = nm([0]);
    let r = tag_of(cat.get(&q0, Class::IN));
    assert!(r == t_root, "[C22] inserting one entry leaves the others in place");
    let q = nm([1, b'a', 0]);
    let r2 = tag_of(cat.get(&q, Class::IN));
    assert!(r2 == Some(t), "[C22] get finds the inserted entry");
    kani::cover!(t_root == Some(7), "witness");
    core::mem::forget(old);
    core::mem::forget(cat);
    core::mem::forget(q);
    core::mem::forget(q0);
}


unsafe fn init_into_model(allocation: *mut u8, label_offsets: &[u8], slices: &[&[u8]]) {
    let n_labels = label_offsets.len();
    allocation.write(n_labels as u8);
    let mut i = 0;
    while i < n_labels {
        allocation.add(1 + i).write(label_offsets[i]);
        i += 1;
    }
    let mut index = 1 + n_labels;
    let mut k = 0;
    while k < slices.len() {
        let s = slices[k];
        let mut j = 0;
        while j < s.len() {
            allocation.add(index + j).write(s[j]);
            j += 1;
        }
        index += s.len();
        k += 1;
    }
}

#[kani::proof]
#[kani::unwind(9)]
#[kani::stub(<[u8]>::eq_ignore_ascii_case, eq_ic_model)]
#[kani::stub(crate::name::Name::initialize_into, init_into_model)]
fn c22_e4_const_names() {
    let a = nm([1, b'c', 1, b'b', 1, b'a', 0]);
    assert!(a.len() == 4, "[C22] e4 len");
    assert!(a[0].octets().len() == 1, "[C22] e4 label len");
    assert!(a[1].octets()[0] == b'b', "[C22] e4 label octet");
    let b = nm([1, b'b', 1, b'a', 0]);
    assert!(a.eq_or_subdomain_of(&b), "[C22] e4 subdomain");
    kani::cover!(a.len() == 4, "witness");
    core::mem::forget(a);
    core::mem::forget(b);
}


fn spin_a(n: usize) -> usize { let mut i = 0; while i < n { i += 1; } i }
fn spin_b(n: usize) -> usize { let mut i = 0; while i < n { i += 1; } i }
fn spin_c(n: usize) -> usize { let mut i = 0; while i < n { i += 1; } i }
fn spin_d(n: usize) -> usize { let mut i = 0; while i < n { i += 1; } i }

#[kani::proof]
#[kani::unwind(9)]
#[kani::stub(<[u8]>::eq_ignore_ascii_case, eq_ic_model)]
fn c22_e5_const_probe() {
    let a = nm([1, b'c', 1, b'b', 1, b'a', 0]);
    let x = spin_a(a.len());
    let y = spin_b(a.wire_repr().len());
    let z = spin_c(a[0].octets().len());
    let w = spin_d(a.wire_repr()[2] as usize);
    assert!(x + y + z + w > 0, "[C22] e5");
    kani::cover!(a.len() == 4, "witness");
    core::mem::forget(a);
}


/// Vec::push without the reallocating growth path: the first push allocates
/// room for 4 elements, a fifth element fails loudly.
fn vec_push_model<T, A>(v: &mut Vec<T>, value: T) {
    if v.capacity() == 0 {
        let fresh: Vec<T> = Vec::with_capacity(4);
        let old = core::mem::replace(v, fresh);
        core::mem::forget(old);
    }
    assert!(v.len() < v.capacity(), "Vec::push model: capacity 4 exceeded");
    unsafe {
        let len = v.len();
        core::ptr::write(v.as_mut_ptr().add(len), value);
        v.set_len(len + 1);
    }
}

#[kani::proof]
#[kani::unwind(6)]
#[kani::stub(<[u8]>::eq_ignore_ascii_case, eq_ic_model)]
#[kani::stub(alloc::vec::Vec::push, vec_push_model)]
fn c22_e6_insert_create_pushstub() {
    let e_root = any_entry([0]);
    let t_root = etag(&e_root);
    let root = mk(nm([0]), e_root);
    let mut cat = Cat::new();
    core::mem::forget(cat.roots_by_class.insert(Class::IN, root));
    let t: u8 = kani::any();
    let old = cat.insert(Entry::NotYetLoaded(nm([1, b'a', 0]), Class::IN, t));
    assert!(old.is_none(), "[C22] insert returns the replaced entry");
    let q0 = nm([0]);
    let r = tag_of(cat.get(&q0, Class::IN));
    assert!(r == t_root, "[C22] inserting one entry leaves the others in place");
    let q = nm([1, b'a', 0]);
    let r2 = tag_of(cat.get(&q, Class::IN));
    assert!(r2 == Some(t), "[C22] get finds the inserted entry");
    kani::cover!(t_root == Some(7), "witness");
    core::mem::forget(old);
    core::mem::forget(cat);
    core::mem::forget(q);
    core::mem::forget(q0);
}


#[kani::proof]
#[kani::unwind(9)]
fn c22_e7_heap_const_probe() {
    let mut v: Vec<(u64, u64)> = Vec::new();
    v.push((3, 4));
    v.push((5, 2));
    let x = spin_a(v[0].0 as usize);
    let mut outer: Vec<Vec<u8>> = Vec::new();
    outer.push(Vec::new());
    outer[0].push(1);
    outer[0].push(1);
    let y = spin_b(outer[0].len());
    let z = spin_c(outer[0].capacity());
    assert!(x + y + z > 0, "[C22] e7");
    kani::cover!(x == 3, "witness");
    core::mem::forget(v);
    core::mem::forget(outer);
}


#[kani::proof]
#[kani::unwind(6)]
#[kani::stub(<[u8]>::eq_ignore_ascii_case, eq_ic_model)]
fn c22_e8_instrumented() {
    let e_root = any_entry([0]);
    let t_root = etag(&e_root);
    let root = mk(nm([0]), e_root);
    let mut cat = Cat::new();
    core::mem::forget(cat.roots_by_class.insert(Class::IN, root));
    let s1 = spin_a(cat.roots_by_class.len() + 1);
    let s2 = match cat.roots_by_class.get(&Class::IN) {
        Some(r) => spin_b(r.children.len() + 2),
        None => 0,
    };
    let t: u8 = kani::any();
    let old = cat.insert(Entry::NotYetLoaded(nm([1, b'a', 0]), Class::IN, t));
    let s3 = match cat.roots_by_class.get(&Class::IN) {
        Some(r) => spin_c(r.children.len() + 2),
        None => 0,
    };
    assert!(s1 + s2 + s3 > 0, "[C22] e8");
    kani::cover!(t_root == Some(7), "witness");
    core::mem::forget(old);
    core::mem::forget(cat);
}


fn spin_e(n: usize) -> usize { let mut i = 0; while i < n { i += 1; } i }
fn spin_f(n: usize) -> usize { let mut i = 0; while i < n { i += 1; } i }
fn spin_g(n: usize) -> usize { let mut i = 0; while i < n { i += 1; } i }

#[kani::proof]
#[kani::unwind(7)]
#[kani::stub(<[u8]>::eq_ignore_ascii_case, eq_ic_model)]
fn c22_e9_instrumented2() {
    let t0: u8 = kani::any();
    let root = mk(nm([0]), Some(Entry::NotYetLoaded(nm([0]), Class::IN, t0)));
    let mut cat = Cat::new();
    core::mem::forget(cat.roots_by_class.insert(Class::IN, root));
    let name = nm([1, b'a', 0]);
    // the steps of HashMapTreeCatalog::insert, one by one
    let mut acc = 0;
    {
        let e = cat.roots_by_class.entry(Class::IN);
        match e {
            hash_map::Entry::Occupied(o) => {
                acc += spin_a(1);
                let r: &mut Node<NoZone, u8> = o.into_mut();
                acc += spin_b(r.children.len() + 2);
                let key = name[0].to_owned();
                acc += spin_c(key.len() + 1);
                let e2 = r.children.entry(key);
                match e2 {
                    hash_map::Entry::Occupied(_) => {
                        acc += spin_d(5);
                    }
                    hash_map::Entry::Vacant(v) => {
                        acc += spin_d(1);
                        let n2 = v.insert(mk(nm([1, b'a', 0]), None));
                        acc += spin_e(n2.children.len() + 2);
                    }
                }
                acc += spin_f(r.children.len() + 2);
            }
            hash_map::Entry::Vacant(_) => {
                acc += spin_a(5);
            }
        }
    }
    assert!(acc > 0, "[C22] e9");
    kani::cover!(t0 == 7, "witness");
    core::mem::forget(cat);
    core::mem::forget(name);
}


struct Big { a: usize, pad: [u8; 63], v: Vec<u8>, b: usize }

#[kani::proof]
#[kani::unwind(9)]
fn c22_e10_heap_const_probe_big() {
    let mut outer: Vec<Big> = Vec::new();
    outer.push(Big { a: 3, pad: [0; 63], v: Vec::new(), b: 2 });
    let x = spin_a(outer[0].a);
    outer[0].v.push(1);
    outer[0].v.push(1);
    let y = spin_b(outer[0].v.len());
    let mut outer2: Vec<Vec<Big>> = Vec::new();
    outer2.push(Vec::new());
    outer2[0].push(Big { a: 4, pad: [0; 63], v: Vec::new(), b: 2 });
    let z = spin_c(outer2[0].len() + 2);
    let w = spin_d(outer2[0][0].a);
    assert!(x + y + z + w > 0, "[C22] e10");
    kani::cover!(x == 3, "witness");
    core::mem::forget(outer);
    core::mem::forget(outer2);
}


#[kani::proof]
#[kani::unwind(7)]
#[kani::stub(<[u8]>::eq_ignore_ascii_case, eq_ic_model)]
fn c22_e11a() {
    // stack-resident parent, key from array
    let mut r = mk(nm([0]), None);
    core::mem::forget(r.children.insert(LabelBuf::from(b"a"), mk(nm([1, b'a', 0]), None)));
    let x = spin_a(r.children.len() + 2);
    assert!(x > 0, "[C22] e11a");
    kani::cover!(x == 3, "witness");
    core::mem::forget(r);
}

#[kani::proof]
#[kani::unwind(7)]
#[kani::stub(<[u8]>::eq_ignore_ascii_case, eq_ic_model)]
fn c22_e11b() {
    // heap-resident parent (inside a Vec), key from array
    let mut outer: Vec<Node<NoZone, u8>> = Vec::new();
    outer.push(mk(nm([0]), None));
    core::mem::forget(outer[0].children.insert(LabelBuf::from(b"a"), mk(nm([1, b'a', 0]), None)));
    let x = spin_a(outer[0].children.len() + 2);
    assert!(x > 0, "[C22] e11b");
    kani::cover!(x == 3, "witness");
    core::mem::forget(outer);
}


#[kani::proof]
#[kani::unwind(7)]
#[kani::stub(<[u8]>::eq_ignore_ascii_case, eq_ic_model)]
fn c22_e12a() {
    let mut outer: Vec<Node<NoZone, u8>> = Vec::new();
    outer.push(mk(nm([0]), None));
    let name = nm([1, b'a', 0]);
    core::mem::forget(outer[0].children.insert(name[0].to_owned(), mk(nm([1, b'a', 0]), None)));
    let x = spin_a(outer[0].children.len() + 2);
    assert!(x > 0, "[C22] e12a");
    kani::cover!(x == 3, "witness");
    core::mem::forget(outer);
    core::mem::forget(name);
}

#[kani::proof]
#[kani::unwind(7)]
#[kani::stub(<[u8]>::eq_ignore_ascii_case, eq_ic_model)]
fn c22_e12b() {
    let mut outer: Vec<Node<NoZone, u8>> = Vec::new();
    outer.push(mk(nm([0]), None));
    let mut acc = 0;
    match outer[0].children.entry(LabelBuf::from(b"a")) {
        hash_map::Entry::Occupied(_) => { acc += spin_b(5); }
        hash_map::Entry::Vacant(v) => {
            let n2 = v.insert(mk(nm([1, b'a', 0]), None));
            acc += spin_c(n2.children.len() + 2);
        }
    }
    let x = spin_a(outer[0].children.len() + 2);
    assert!(x + acc > 0, "[C22] e12b");
    kani::cover!(x == 3, "witness");
    core::mem::forget(outer);
}


fn build5_root(
    e_root: Option<Entry<NoZone, u8>>,
    e_a: Option<Entry<NoZone, u8>>,
    e_ba: Option<Entry<NoZone, u8>>,
    e_xa: Option<Entry<NoZone, u8>>,
    e_cba: Option<Entry<NoZone, u8>>,
) -> Node<NoZone, u8> {
    let cba = mk(nm([1, b'c', 1, b'b', 1, b'a', 0]), e_cba);
    let mut ba = mk(nm([1, b'b', 1, b'a', 0]), e_ba);
    core::mem::forget(ba.children.insert(LabelBuf::from(b"c"), cba));
    let xa = mk(nm([1, b'x', 1, b'a', 0]), e_xa);
    let mut a = mk(nm([1, b'a', 0]), e_a);
    core::mem::forget(a.children.insert(LabelBuf::from(b"b"), ba));
    core::mem::forget(a.children.insert(LabelBuf::from(b"x"), xa));
    let mut root = mk(nm([0]), e_root);
    core::mem::forget(root.children.insert(LabelBuf::from(b"a"), a));
    root
}

fn lk<const N: usize>(root: &Node<NoZone, u8>, w: [u8; N]) -> Option<u8> {
    let q = nm(w);
    let r = tag_of(lookup_in_class(root, &q, q.len() - 1));
    core::mem::forget(q);
    r
}

#[kani::proof]
#[kani::unwind(6)]
#[kani::stub(<[u8]>::eq_ignore_ascii_case, eq_ic_model)]
fn c22_e13_remove_direct() {
    let e_root = any_entry([0]);
    let e_a = any_entry([1, b'a', 0]);
    let e_ba = any_entry([1, b'b', 1, b'a', 0]);
    let e_xa = any_entry([1, b'x', 1, b'a', 0]);
    let e_cba = any_entry([1, b'c', 1, b'b', 1, b'a', 0]);
    let (t_root, t_a, t_ba, t_xa, t_cba) = (etag(&e_root), etag(&e_a), etag(&e_ba), etag(&e_xa), etag(&e_cba));
    let mut root = build5_root(e_root, e_a, e_ba, e_xa, e_cba);
    let q = nm([1, b'c', 1, b'b', 1, b'a', 0]);
    let (removed, _prune) = remove_in_class(&mut root, &q, q.len() - 1);
    assert!(etag(&removed) == t_cba, "[C22] remove returns the entry that was at the name");
    let or = |a: Option<u8>, b: Option<u8>| if a.is_some() { a } else { b };
    let w_root = t_root;
    let w_a = or(t_a, w_root);
    let w_ba = or(t_ba, w_a);
    let w_xa = or(t_xa, w_a);
    assert!(lk(&root, [0]) == w_root, "[C22] removing one entry leaves the others in place (.)");
    assert!(lk(&root, [1, b'a', 0]) == w_a, "[C22] removing one entry leaves the others in place (a.)");
    assert!(lk(&root, [1, b'b', 1, b'a', 0]) == w_ba, "[C22] removing one entry leaves the others in place (b.a.)");
    assert!(lk(&root, [1, b'x', 1, b'a', 0]) == w_xa, "[C22] removing one entry leaves the others in place (x.a.)");
    assert!(lk(&root, [1, b'c', 1, b'b', 1, b'a', 0]) == w_ba, "[C22] the removed entry is gone (c.b.a.)");
    kani::cover!(t_cba.is_some() && t_ba.is_some() && t_a.is_none(), "witness: parent with entry");
    core::mem::forget(removed);
    core::mem::forget(root);
    core::mem::forget(q);
}


#[kani::proof]
#[kani::unwind(6)]
#[kani::stub(<[u8]>::eq_ignore_ascii_case, eq_ic_model)]
fn c22_e14_insert_direct() {
    // tree: . -> a -> b ; insert x.a. (creates one node) 
    let e_root = any_entry([0]);
    let e_a = any_entry([1, b'a', 0]);
    let e_ba = any_entry([1, b'b', 1, b'a', 0]);
    let (t_root, t_a, t_ba) = (etag(&e_root), etag(&e_a), etag(&e_ba));
    let ba = mk(nm([1, b'b', 1, b'a', 0]), e_ba);
    let mut a = mk(nm([1, b'a', 0]), e_a);
    core::mem::forget(a.children.insert(LabelBuf::from(b"b"), ba));
    let mut root = mk(nm([0]), e_root);
    core::mem::forget(root.children.insert(LabelBuf::from(b"a"), a));
    let t: u8 = kani::any();
    let entry: Entry<NoZone, u8> = Entry::NotYetLoaded(nm([1, b'x', 1, b'a', 0]), Class::IN, t);
    // the two statements of HashMapTreeCatalog::insert after the class root has been found
    let old = {
        let node = root.get_or_create_descendant(entry.name(), entry.name().len() - 1);
        node.data.replace(entry)
    };
    assert!(old.is_none(), "[C22] insert returns the replaced entry");
    let or = |a: Option<u8>, b: Option<u8>| if a.is_some() { a } else { b };
    let w_root = t_root;
    let w_a = or(t_a, w_root);
    let w_ba = or(t_ba, w_a);
    assert!(lk(&root, [0]) == w_root, "[C22] inserting one entry leaves the others in place (.)");
    assert!(lk(&root, [1, b'a', 0]) == w_a, "[C22] inserting one entry leaves the others in place (a.)");
    assert!(lk(&root, [1, b'b', 1, b'a', 0]) == w_ba, "[C22] inserting one entry leaves the others in place (b.a.)");
    assert!(lk(&root, [1, b'x', 1, b'a', 0]) == Some(t), "[C22] the inserted entry is found (x.a.)");
    kani::cover!(t_a.is_some() && t_ba.is_none(), "witness");
    core::mem::forget(old);
    core::mem::forget(root);
}
