// @host src/db/zone/validation.rs
// @transform hashmap_model
//
// C21: the real `validate::<MockZone>` against a reference checker written
// here from the module documentation of validation.rs (checks 2, 3, 5-10),
// the `GluePolicy` documentation and the property statement.
//
// Shape of every harness
//   * The zone is a mock (stub M1) implementing the public `Zone` trait.  Its
//     STRUCTURE (which nodes `iter_by_node` yields, which RRsets they own,
//     which names the NS / MX RDATA mention, what `ns()` / `soa()` return) is
//     concrete per harness: static views of `Name` and `RdataSet` (the
//     technique of the query family; `c21_inputs_wellformed` ties the views to
//     the public constructors).  The zone is the root zone: the shortest
//     names keep the unwind bound at 4.
//   * What the zone ANSWERS to `lookup_addrs(name, options)` is a table
//     indexed by (pool name, search_below_cuts): a function of its arguments,
//     so the implementation and the reference see the same zone.  Table
//     entries are symbolic where CBMC can take it (kind of answer, presence of
//     A / AAAA), as are the class (IN / CH / HS) and the glue policy.
//   * `Facts::hints` (see there) only helps CBMC's constant propagation; the
//     mock asserts that every hint equals the actual lookup arguments.
//   * Oracle: `ref_validate` computes the expected issue set from the same
//     facts (it reads the RDATA views with its own walker, never through
//     quandary's `RdataSet::iter` / `Name` parser); the Vec returned by
//     `validate` must be that set: no issue outside it, none twice, none
//     missing; `is_error()` is false exactly for the MX-address and
//     NS-at-wildcard issues.
//
// The mock may be "inconsistent" as a zone (e.g. `ns()` and the apex node of
// `iter_by_node` are independent facts, a name may be answered Found although
// no node for it is iterated, the root zone may disown a name): validate is
// then checked on a superset of the situations a real store produces, which
// is sound for "reports exactly".
//
// What CBMC could take (measured on a machine with load average 30-50):
//   * zones WITHOUT nodes (SOA / apex NS checks): minutes;
//   * zones with a node but no address lookup from it (CNAME checks): ~20 min;
//   * a node whose NS / MX RDATA is looked up: the `Vec<IteratedRrset>` that
//     validate collects per node lives on the heap, which makes the RRset
//     type, the RDATA pointers and lengths symbolic to CBMC; every arm of
//     scan_node's match and every loop is explored to the unwind bound, each
//     with `HashSet::contains` -> `Name == Name` (about 50 loop unwindings a
//     piece).  c21_mx_one (one node, one MX, one symbolic answer, unwind 4)
//     needed 46 min of symbolic execution and then ran out of memory at
//     14.2 GB; those harnesses are kept below, disabled (`@disabled-harness`).

use super::*;
use crate::db::zone::{Cname, IteratedRrset, IteratorByNode, LookupAllResult, LookupResult, Referral, SingleRrset};
use crate::rr::{Rdata, RdataSet, RdataSetOwned, Ttl};
use std::borrow::Cow;

// --------------------------------------------------------------------------
// stack-built inputs
// --------------------------------------------------------------------------

/// `repr` = [n_labels, label offsets.., wire form..]: the layout of `Name`
/// (repr(C): n_labels, then the unsized data = offsets followed by the wire).
fn name_view(repr: &[u8]) -> &Name {
    unsafe { &*(core::ptr::slice_from_raw_parts(repr.as_ptr(), repr.len() - 1) as *const Name) }
}

/// `raw` = [len, len, rdata.., len, len, rdata..] (RdataSet is
/// repr(transparent) over [u8] with native-endian u16 length prefixes; all
/// lengths here are < 256 and the target is little-endian, which
/// `c21_inputs_wellformed` checks against `RdataSetOwned`).
fn rdataset_view(raw: &[u8]) -> &RdataSet {
    unsafe { &*(raw as *const [u8] as *const RdataSet) }
}

#[derive(Clone, Copy)]
struct PN {
    repr: &'static [u8],
    wire_at: usize,
}

impl PN {
    fn name(&self) -> &'static Name {
        name_view(self.repr)
    }
    fn wire(&self) -> &'static [u8] {
        &self.repr[self.wire_at..]
    }
}

// the pool of names; the zone is the root zone "." (the shortest possible
// names: every label of every name costs one unwinding of the name parser
// and of `Name == Name`, and heap data - the `Vec` scan_node's RRsets are
// collected into, every `Box<Name>` - is symbolic to CBMC, so all loops over
// it run to the unwind bound; with apex "z." and unwind 6 a one-node zone
// did not finish 85 min of symbolic execution, measured)
const N_APEX: usize = 0; // .
const N_D: usize = 1; // d.        a delegation
const N_WILD: usize = 2; // *.
const N_NSD: usize = 3; // ns.d.     name server inside the delegation d.
const N_NSZ: usize = 4; // ns.       name server inside the zone proper
const N_E: usize = 5; // e.        a sibling delegation
const N_NSE: usize = 6; // ns.e.     name server inside the sibling delegation
const N_MX: usize = 7; // mx.       mail exchanger inside the zone
const N_OUT: usize = 8; // x.        a name the zone disowns (answers WrongZone / anything the harness says)
const N_H: usize = 9; // h.        ordinary host
const NPOOL: usize = 10;

static R_APEX: [u8; 3] = [1, 0, 0];
static R_D: [u8; 6] = [2, 0, 2, 1, b'd', 0];
static R_WILD: [u8; 6] = [2, 0, 2, 1, b'*', 0];
static R_NSD: [u8; 10] = [3, 0, 3, 5, 2, b'n', b's', 1, b'd', 0];
static R_NSZ: [u8; 7] = [2, 0, 3, 2, b'n', b's', 0];
static R_E: [u8; 6] = [2, 0, 2, 1, b'e', 0];
static R_NSE: [u8; 10] = [3, 0, 3, 5, 2, b'n', b's', 1, b'e', 0];
static R_MX: [u8; 7] = [2, 0, 3, 2, b'm', b'x', 0];
static R_OUT: [u8; 6] = [2, 0, 2, 1, b'x', 0];
static R_H: [u8; 6] = [2, 0, 2, 1, b'h', 0];

fn pool(i: usize) -> PN {
    match i {
        N_APEX => PN { repr: &R_APEX, wire_at: 2 },
        N_D => PN { repr: &R_D, wire_at: 3 },
        N_WILD => PN { repr: &R_WILD, wire_at: 3 },
        N_NSD => PN { repr: &R_NSD, wire_at: 4 },
        N_NSZ => PN { repr: &R_NSZ, wire_at: 3 },
        N_E => PN { repr: &R_E, wire_at: 3 },
        N_NSE => PN { repr: &R_NSE, wire_at: 4 },
        N_MX => PN { repr: &R_MX, wire_at: 3 },
        N_OUT => PN { repr: &R_OUT, wire_at: 3 },
        _ => PN { repr: &R_H, wire_at: 3 },
    }
}

/// `w == p` for names of at most 8 octets, written without a loop so that
/// the harness's own code does not consume the unwind bound.
fn wire_is(w: &[u8], p: &[u8]) -> bool {
    let n = p.len();
    w.len() == n
        && n <= 8
        && (n < 1 || w[0] == p[0])
        && (n < 2 || w[1] == p[1])
        && (n < 3 || w[2] == p[2])
        && (n < 4 || w[3] == p[3])
        && (n < 5 || w[4] == p[4])
        && (n < 6 || w[5] == p[5])
        && (n < 7 || w[6] == p[6])
        && (n < 8 || w[7] == p[7])
}

/// Which pool name a wire-form name is (NPOOL: none of them).  Exact octet
/// comparison: the pool is all lower case and no harness input has upper
/// case, so case folding is not involved.
fn which_wire(w: &[u8]) -> usize {
    if wire_is(w, pool(0).wire()) {
        0
    } else if wire_is(w, pool(1).wire()) {
        1
    } else if wire_is(w, pool(2).wire()) {
        2
    } else if wire_is(w, pool(3).wire()) {
        3
    } else if wire_is(w, pool(4).wire()) {
        4
    } else if wire_is(w, pool(5).wire()) {
        5
    } else if wire_is(w, pool(6).wire()) {
        6
    } else if wire_is(w, pool(7).wire()) {
        7
    } else if wire_is(w, pool(8).wire()) {
        8
    } else if wire_is(w, pool(9).wire()) {
        9
    } else {
        NPOOL
    }
}

// RDATA sets (raw RdataSet layout)
static RS_A: [u8; 6] = [4, 0, 192, 0, 2, 1];
static RS_AAAA: [u8; 18] = [16, 0, 0x20, 0x01, 0x0d, 0xb8, 0, 0, 0, 0, 0, 0, 0, 0, 0, 0, 0, 1];
static RS_TXT: [u8; 4] = [2, 0, 1, b't'];
// SOA: mname ".", rname ".", five 32-bit fields
static RS_SOA1: [u8; 24] = [22, 0, 0, 0, 0, 0, 0, 1, 0, 0, 0, 0, 0, 0, 0, 0, 0, 0, 0, 0, 0, 0, 0, 7];
static RS_SOA2: [u8; 48] = [
    22, 0, 0, 0, 0, 0, 0, 1, 0, 0, 0, 0, 0, 0, 0, 0, 0, 0, 0, 0, 0, 0, 0, 7, //
    22, 0, 0, 0, 0, 0, 0, 2, 0, 0, 0, 0, 0, 0, 0, 0, 0, 0, 0, 0, 0, 0, 0, 7,
];
// NS sets
static RS_NS_NSZ: [u8; 6] = [4, 0, 2, b'n', b's', 0];
static RS_NS_NSD: [u8; 8] = [6, 0, 2, b'n', b's', 1, b'd', 0];
static RS_NS_NSE: [u8; 8] = [6, 0, 2, b'n', b's', 1, b'e', 0];
static RS_NS_OUT: [u8; 5] = [3, 0, 1, b'x', 0];
static RS_NS_NSD_NSZ: [u8; 14] = [
    6, 0, 2, b'n', b's', 1, b'd', 0, //
    4, 0, 2, b'n', b's', 0,
];
// CNAME sets (targets are never looked up)
static RS_CNAME1: [u8; 5] = [3, 0, 1, b'h', 0];
static RS_CNAME2: [u8; 10] = [3, 0, 1, b'h', 0, 3, 0, 1, b'd', 0];
// MX sets: 16-bit preference + exchange
static RS_MX_MX: [u8; 8] = [6, 0, 0, 10, 2, b'm', b'x', 0];

const T_A: u16 = 1;
const T_NS: u16 = 2;
const T_CNAME: u16 = 5;
const T_SOA: u16 = 6;
const T_MX: u16 = 15;
const T_TXT: u16 = 16;

/// One RRset of a node: type code and raw RdataSet view.
#[derive(Clone, Copy)]
struct SetV {
    rtype: u16,
    raw: &'static [u8],
}

/// One node: owner (pool index) and its RRsets.
#[derive(Clone, Copy)]
struct NodeV {
    owner: usize,
    sets: &'static [SetV],
}

// --------------------------------------------------------------------------
// what the zone answers to address lookups
// --------------------------------------------------------------------------

#[derive(Clone, Copy, PartialEq, Eq)]
enum Ans {
    /// the name exists in the zone's authoritative data
    Found { a: bool, aaaa: bool },
    Cname,
    NxDomain,
    /// the name is at or below the delegation `child` (pool index)
    Referral { child: usize },
    WrongZone,
}

/// Any answer; a referral names the delegation `child`.  (The delegation is
/// concrete per harness: a symbolic choice between two static names is a
/// symbolic pointer, and `Name == Name` on it did not finish - measured: 15+
/// min of symbolic execution for one delegation check.)
fn any_ans(child: usize) -> Ans {
    let k: u8 = kani::any();
    let a: bool = kani::any();
    let aaaa: bool = kani::any();
    if k == 0 {
        Ans::Found { a, aaaa }
    } else if k == 1 {
        Ans::Cname
    } else if k == 2 {
        Ans::NxDomain
    } else if k == 3 {
        Ans::Referral { child }
    } else {
        Ans::WrongZone
    }
}

/// The k-th kind of answer (k concrete, 0..5), its data symbolic.  Used where
/// the answer decides whether validate compares the referral's delegation
/// name with the NS owner: with a SYMBOLIC kind the `Referral` payload read
/// after the match is a symbolic pointer and `Name == Name` through it did not
/// finish (measured: 15+ min of symbolic execution).  The harness enumerates
/// the five kinds one after the other instead; the space covered is the same.
const NKIND: usize = 5;
fn kind_ans(k: usize, child: usize) -> Ans {
    match k {
        0 => Ans::Found {
            a: kani::any(),
            aaaa: kani::any(),
        },
        1 => Ans::Cname,
        2 => Ans::NxDomain,
        3 => Ans::Referral { child },
        _ => Ans::WrongZone,
    }
}

fn any_class() -> (Class, u16) {
    let k: u8 = kani::any();
    if k == 0 {
        (Class::IN, 1)
    } else if k == 1 {
        (Class::CH, 3)
    } else {
        (Class::HS, 4)
    }
}

fn any_policy() -> (GluePolicy, bool) {
    if kani::any() {
        (GluePolicy::Wide, true)
    } else {
        (GluePolicy::Narrow, false)
    }
}

/// The facts of one zone.  Shared by the mock and the reference.
#[derive(Clone, Copy)]
struct Facts<'f> {
    class: Class,
    class_code: u16,
    policy: GluePolicy,
    wide: bool,
    /// what `soa()` returns: None or a raw RdataSet view
    soa: Option<&'static [u8]>,
    /// what `ns()` returns
    ns: Option<&'static [u8]>,
    nodes: &'f [NodeV],
    /// answer of `lookup_addrs` per (pool name, search_below_cuts)
    table: [[Ans; 2]; NPOOL],
    /// The sequence of (name, search_below_cuts) arguments the harness
    /// expects `lookup_addrs` to be called with.  It does NOT decide the
    /// answers: the mock asserts that the k-th call's actual arguments equal
    /// hints[k] and then answers table[hints[k]], i.e. table[actual
    /// arguments].  Its only purpose is to let CBMC see a constant table
    /// index (the name in a `Box<Name>` is not a constant to CBMC - measured -
    /// so an index computed from it makes every answer kind, and with it the
    /// whole control flow of validate, symbolic).  A wrong or too short hint
    /// sequence fails the harness; it can never hide anything.
    hints: &'f [(usize, bool)],
}

struct MockZone<'f> {
    f: Facts<'f>,
    calls: core::cell::Cell<usize>,
}

fn single(raw: &'static [u8]) -> SingleRrset<'static> {
    SingleRrset {
        ttl: Ttl::from(60),
        rdatas: Cow::Borrowed(rdataset_view(raw)),
    }
}

impl<'f> Zone for MockZone<'f> {
    fn name(&self) -> &Name {
        pool(N_APEX).name()
    }
    fn class(&self) -> Class {
        self.f.class
    }
    fn glue_policy(&self) -> GluePolicy {
        self.f.policy
    }
    fn lookup(&self, _name: &Name, _rr_type: Type, _options: LookupOptions) -> LookupResult {
        // validate has soa()/ns()/lookup_addrs()/iter_by_node() to go by;
        // a plain lookup is outside this mock's facts
        assert!(false, "[C21] harness: validate used Zone::lookup, which this mock does not model");
        LookupResult::NxDomain
    }
    fn lookup_addrs(&self, name: &Name, options: LookupOptions) -> LookupAddrsResult {
        let k = self.calls.get();
        self.calls.set(k + 1);
        assert!(
            k < self.f.hints.len(),
            "[C21] harness: more address lookups than the scenario's hint sequence has (harness limitation, not a verdict)"
        );
        let (i, below) = self.f.hints[k];
        assert!(
            wire_is(name.wire_repr(), pool(i).wire()) && options.search_below_cuts == below,
            "[C21] harness: address lookup arguments differ from the scenario's hint sequence (harness limitation, not a verdict)"
        );
        let ans = self.f.table[i][if below { 1 } else { 0 }];
        match ans {
            Ans::Found { a, aaaa } => LookupAddrsResult::Found(Found {
                data: Addresses {
                    a_rrset: if a { Some(single(&RS_A)) } else { None },
                    aaaa_rrset: if aaaa { Some(single(&RS_AAAA)) } else { None },
                },
                source_of_synthesis: None,
            }),
            Ans::Cname => LookupAddrsResult::Cname(Cname {
                rrset: single(&RS_CNAME1),
                source_of_synthesis: None,
            }),
            Ans::NxDomain => LookupAddrsResult::NxDomain,
            Ans::Referral { child } => LookupAddrsResult::Referral(Referral {
                child_zone: Cow::Borrowed(pool(child).name()),
                ns_rrset: single(&RS_NS_OUT),
            }),
            Ans::WrongZone => LookupAddrsResult::WrongZone,
        }
    }
    fn lookup_all(&self, _name: &Name, _options: LookupOptions) -> LookupAllResult {
        assert!(false, "[C21] harness: validate used Zone::lookup_all, which this mock does not model");
        LookupAllResult::NxDomain
    }
    fn soa(&self) -> Option<SingleRrset> {
        match self.f.soa {
            Some(raw) => Some(single(raw)),
            None => None,
        }
    }
    fn ns(&self) -> Option<SingleRrset> {
        match self.f.ns {
            Some(raw) => Some(single(raw)),
            None => None,
        }
    }
    fn iter_by_node(&self) -> IteratorByNode {
        Box::new(NodeIter {
            nodes: self.f.nodes,
            i: 0,
        })
    }
}

/// Iterators with an explicit counter and the default `size_hint`: the
/// `Vec` that scan_node's caller collects the RRsets into is then allocated
/// with the constant minimum capacity (4), which (with
/// --max-field-sensitivity-array-size 256) keeps its elements constants for
/// CBMC.  With `slice::Iter`'s exact size_hint the capacity, hence the whole
/// vector, was symbolic and every loop over it ran to the unwind bound
/// (measured: > 50 min of symbolic execution for a one-node zone).
struct NodeIter<'a> {
    nodes: &'a [NodeV],
    i: usize,
}

impl<'a> Iterator for NodeIter<'a> {
    type Item = (&'a Name, Box<dyn Iterator<Item = IteratedRrset<'a>> + 'a>);
    fn next(&mut self) -> Option<Self::Item> {
        if self.i < self.nodes.len() {
            let n = &self.nodes[self.i];
            self.i += 1;
            let sets: Box<dyn Iterator<Item = IteratedRrset<'a>> + 'a> = Box::new(SetIter {
                sets: n.sets,
                i: 0,
                _zone: core::marker::PhantomData,
            });
            Some((pool(n.owner).name(), sets))
        } else {
            None
        }
    }
}

struct SetIter<'a> {
    sets: &'static [SetV],
    i: usize,
    _zone: core::marker::PhantomData<&'a ()>,
}

impl<'a> Iterator for SetIter<'a> {
    type Item = IteratedRrset<'a>;
    fn next(&mut self) -> Option<Self::Item> {
        if self.i < self.sets.len() {
            let s = &self.sets[self.i];
            self.i += 1;
            Some(IteratedRrset {
                rr_type: Type::from(s.rtype),
                ttl: Ttl::from(60),
                rdatas: Cow::Borrowed(rdataset_view(s.raw)),
            })
        } else {
            None
        }
    }
}

// --------------------------------------------------------------------------
// the reference checker
// --------------------------------------------------------------------------

// issue kinds that carry a name
const K_NS_ADDR: usize = 0; // MissingNsAddress
const K_MX_ADDR: usize = 1; // MissingMxAddress (warning)
const K_GLUE: usize = 2; // MissingGlue
const K_DUP_CNAME: usize = 3; // DuplicateCname
const K_CNAME_OTHER: usize = 4; // OtherRecordsAtCname
const K_NS_WILD: usize = 5; // NsAtWildcard (warning)
const NKINDS: usize = 6;

/// A set of issues.  `named[k]` is a bit mask over the pool: bit i set = the
/// issue of kind k naming pool name i.  (Masks rather than arrays of bool so
/// that comparing two sets needs no loop.)
#[derive(Clone, Copy)]
struct IssueSet {
    missing_soa: bool,
    too_many_soas: bool,
    missing_ns: bool,
    named: [u16; NKINDS],
}

impl IssueSet {
    fn empty() -> Self {
        IssueSet {
            missing_soa: false,
            too_many_soas: false,
            missing_ns: false,
            named: [0; NKINDS],
        }
    }
    fn has(&self, k: usize, i: usize) -> bool {
        self.named[k] & (1u16 << i) != 0
    }
    fn add(&mut self, k: usize, i: usize) {
        self.named[k] |= 1u16 << i;
    }
    fn same(&self, o: &IssueSet) -> bool {
        self.missing_soa == o.missing_soa
            && self.too_many_soas == o.too_many_soas
            && self.missing_ns == o.missing_ns
            && self.named[0] == o.named[0]
            && self.named[1] == o.named[1]
            && self.named[2] == o.named[2]
            && self.named[3] == o.named[3]
            && self.named[4] == o.named[4]
            && self.named[5] == o.named[5]
    }
    fn is_empty(&self) -> bool {
        self.same(&IssueSet::empty())
    }
}

/// Number of RDATA in a raw set and, for sets of at most two, where they are.
struct RawSet {
    n: usize,
    at: [usize; 2],
    len: [usize; 2],
}

fn ref_walk(raw: &[u8]) -> RawSet {
    let mut out = RawSet {
        n: 0,
        at: [0; 2],
        len: [0; 2],
    };
    let mut pos = 0;
    while pos + 2 <= raw.len() && out.n < 2 {
        let l = raw[pos] as usize | ((raw[pos + 1] as usize) << 8);
        out.at[out.n] = pos + 2;
        out.len[out.n] = l;
        out.n += 1;
        pos += 2 + l;
    }
    out
}

/// Does the zone have an address for a name it answered `Found` for?
/// A in every class that has addresses, AAAA only in IN.
fn ref_has_addr(class_code: u16, a: bool, aaaa: bool) -> bool {
    a || (class_code == 1 && aaaa)
}

/// A name server / mail exchanger that lies in the zone's own authoritative
/// data must have an address there.  Outside the zone (WrongZone) or below a
/// delegation (Referral) the zone is not the place where addresses live.
fn ref_in_zone_without_address(f: &Facts, target: usize) -> bool {
    match f.table[target][0] {
        Ans::Found { a, aaaa } => !ref_has_addr(f.class_code, a, aaaa),
        Ans::Cname | Ans::NxDomain => true,
        Ans::Referral { .. } | Ans::WrongZone => false,
    }
}

fn ref_validate(f: &Facts) -> IssueSet {
    let mut e = IssueSet::empty();
    // IN and CH define address records (A; AAAA in IN only), HS does not
    let has_addrs = f.class_code == 1 || f.class_code == 3;
    // check 2: exactly one SOA
    match f.soa {
        None => e.missing_soa = true,
        Some(raw) => {
            if ref_walk(raw).n != 1 {
                e.too_many_soas = true;
            }
        }
    }
    // check 5 and the apex part of check 8
    match f.ns {
        None => e.missing_ns = true,
        Some(raw) => {
            if has_addrs {
                let w = ref_walk(raw);
                let mut k = 0;
                while k < w.n {
                    let t = which_wire(&raw[w.at[k]..w.at[k] + w.len[k]]);
                    if ref_in_zone_without_address(f, t) {
                        e.add(K_NS_ADDR, t);
                    }
                    k += 1;
                }
            }
        }
    }
    // the nodes
    let mut ni = 0;
    while ni < f.nodes.len() {
        let node = &f.nodes[ni];
        let owner = node.owner;
        let mut si = 0;
        while si < node.sets.len() {
            let set = &node.sets[si];
            let w = ref_walk(set.raw);
            if set.rtype == T_CNAME {
                // checks 6 and 7
                if w.n > 1 {
                    e.add(K_DUP_CNAME, owner);
                }
                if node.sets.len() > 1 {
                    e.add(K_CNAME_OTHER, owner);
                }
            } else if set.rtype == T_MX {
                // check 9
                if has_addrs {
                    let mut k = 0;
                    while k < w.n {
                        let t = which_wire(&set.raw[w.at[k] + 2..w.at[k] + w.len[k]]);
                        if ref_in_zone_without_address(f, t) {
                            e.add(K_MX_ADDR, t);
                        }
                        k += 1;
                    }
                }
            } else if set.rtype == T_NS {
                // check 10
                if owner == N_WILD {
                    e.add(K_NS_WILD, owner);
                }
                // checks 3 and 8 for delegations (NS below the apex)
                if owner != N_APEX && has_addrs {
                    let mut k = 0;
                    while k < w.n {
                        let t = which_wire(&set.raw[w.at[k]..w.at[k] + w.len[k]]);
                        match f.table[t][0] {
                            Ans::Referral { child } => {
                                // the name server lies in a delegated zone:
                                // wide policy - glue always; narrow policy -
                                // glue iff that zone is the one being
                                // delegated by this NS record
                                let needed = f.wide || child == owner;
                                if needed {
                                    let glue = match f.table[t][1] {
                                        Ans::Found { a, aaaa } => ref_has_addr(f.class_code, a, aaaa),
                                        _ => false,
                                    };
                                    if !glue {
                                        e.add(K_GLUE, t);
                                    }
                                }
                            }
                            _ => {
                                if ref_in_zone_without_address(f, t) {
                                    e.add(K_NS_ADDR, t);
                                }
                            }
                        }
                        k += 1;
                    }
                }
            }
            si += 1;
        }
        ni += 1;
    }
    e
}

// --------------------------------------------------------------------------
// comparison
// --------------------------------------------------------------------------

/// Marks one reported issue in `seen`; asserts it is expected, not reported
/// twice, and that its severity is right.
fn note(issue: &ValidationIssue, exp: &IssueSet, seen: &mut IssueSet) {
    let (kind, name, warning): (usize, Option<&Name>, bool) = match issue {
        ValidationIssue::MissingApexSoa => {
            assert!(exp.missing_soa, "[C21] spurious MissingApexSoa");
            assert!(!seen.missing_soa, "[C21] MissingApexSoa reported twice");
            seen.missing_soa = true;
            (NKINDS, None, false)
        }
        ValidationIssue::TooManyApexSoas => {
            assert!(exp.too_many_soas, "[C21] spurious TooManyApexSoas");
            assert!(!seen.too_many_soas, "[C21] TooManyApexSoas reported twice");
            seen.too_many_soas = true;
            (NKINDS, None, false)
        }
        ValidationIssue::MissingApexNs => {
            assert!(exp.missing_ns, "[C21] spurious MissingApexNs");
            assert!(!seen.missing_ns, "[C21] MissingApexNs reported twice");
            seen.missing_ns = true;
            (NKINDS, None, false)
        }
        ValidationIssue::MissingNsAddress(n) => (K_NS_ADDR, Some(&**n), false),
        ValidationIssue::MissingMxAddress(n) => (K_MX_ADDR, Some(&**n), true),
        ValidationIssue::MissingGlue(n) => (K_GLUE, Some(&**n), false),
        ValidationIssue::DuplicateCname(n) => (K_DUP_CNAME, Some(*n), false),
        ValidationIssue::OtherRecordsAtCname(n) => (K_CNAME_OTHER, Some(*n), false),
        ValidationIssue::NsAtWildcard(n) => (K_NS_WILD, Some(*n), true),
    };
    assert!(
        issue.is_error() == !warning,
        "[C21] only the MX-address and NS-at-wildcard issues are warnings"
    );
    if let Some(n) = name {
        let i = which_wire(n.wire_repr());
        assert!(i < NPOOL, "[C21] issue names a name that is not in the zone's facts");
        assert!(exp.has(kind, i), "[C21] spurious issue (kind, name) not found by the reference checker");
        assert!(!seen.has(kind, i), "[C21] the same issue is reported twice");
        seen.add(kind, i);
    }
}

/// Runs the real validate on the facts and compares with the reference.
/// `cap` is a concrete upper bound on the number of issues of the scenario.
fn run(f: &Facts, cap: usize) -> IssueSet {
    let exp = ref_validate(f);
    let zone = MockZone {
        f: *f,
        calls: core::cell::Cell::new(0),
    };
    let r = validate(&zone);
    let mut seen = IssueSet::empty();
    match &r {
        Ok(v) => {
            assert!(v.len() <= cap, "[C21] more issues than the scenario can have");
            let mut i = 0;
            while i < v.len() && i < cap {
                note(&v[i], &exp, &mut seen);
                i += 1;
            }
            assert!(seen.same(&exp), "[C21] an issue found by the reference checker is not reported");
        }
        Err(_) => assert!(false, "[C21] validate fails on a zone whose RDATA is all valid"),
    }
    core::mem::forget(r);
    exp
}

fn no_table() -> [[Ans; 2]; NPOOL] {
    // names nobody asks about: a deliberately "bad" answer, so that a lookup
    // of a wrong name would surface as a spurious issue
    [[Ans::NxDomain; 2]; NPOOL]
}


// --------------------------------------------------------------------------
// scenario structure (concrete)
// --------------------------------------------------------------------------

// two-target sets: the FIRST target gets a concrete answer in every harness,
// the LAST one the symbolic answer.  (Measured: two symbolic answers that can
// each add a named issue make `HashSet::contains` compare heap `Name`s under
// symbolic control flow; that ran out of memory at 14.9 GB.)
static RS_NS_OUT_NSZ: [u8; 11] = [3, 0, 1, b'x', 0, 4, 0, 2, b'n', b's', 0];
static RS_MX_NSZ_MX: [u8; 16] = [
    6, 0, 0, 5, 2, b'n', b's', 0, //
    6, 0, 0, 10, 2, b'm', b'x', 0,
];

static S_NS_NSD: [SetV; 1] = [SetV { rtype: T_NS, raw: &RS_NS_NSD }];
static S_NS_NSE: [SetV; 1] = [SetV { rtype: T_NS, raw: &RS_NS_NSE }];
static S_NS_NSZ: [SetV; 1] = [SetV { rtype: T_NS, raw: &RS_NS_NSZ }];
static S_NS_NSD_NSZ: [SetV; 1] = [SetV { rtype: T_NS, raw: &RS_NS_NSD_NSZ }];
static S_A_TXT: [SetV; 2] = [SetV { rtype: T_A, raw: &RS_A }, SetV { rtype: T_TXT, raw: &RS_TXT }];
static S_CNAME1: [SetV; 1] = [SetV { rtype: T_CNAME, raw: &RS_CNAME1 }];
static S_CNAME2: [SetV; 1] = [SetV { rtype: T_CNAME, raw: &RS_CNAME2 }];
static S_CNAME1_A: [SetV; 2] = [SetV { rtype: T_CNAME, raw: &RS_CNAME1 }, SetV { rtype: T_A, raw: &RS_A }];
static S_TXT_CNAME2: [SetV; 2] = [SetV { rtype: T_TXT, raw: &RS_TXT }, SetV { rtype: T_CNAME, raw: &RS_CNAME2 }];
static S_MX_MX: [SetV; 1] = [SetV { rtype: T_MX, raw: &RS_MX_MX }];
static S_MX_NSZ_MX: [SetV; 1] = [SetV { rtype: T_MX, raw: &RS_MX_NSZ_MX }];
static S_NS_NSD_CNAME2: [SetV; 2] = [SetV { rtype: T_NS, raw: &RS_NS_NSD }, SetV { rtype: T_CNAME, raw: &RS_CNAME2 }];

static NODES_NONE: [NodeV; 0] = [];
static NODES_D_NSD: [NodeV; 1] = [NodeV { owner: N_D, sets: &S_NS_NSD }];
static NODES_D_NSE: [NodeV; 1] = [NodeV { owner: N_D, sets: &S_NS_NSE }];
static NODES_D_NSD_NSZ: [NodeV; 1] = [NodeV { owner: N_D, sets: &S_NS_NSD_NSZ }];
static NODES_WILD_NS: [NodeV; 1] = [NodeV { owner: N_WILD, sets: &S_NS_NSZ }];
static NODES_APEX_MX: [NodeV; 1] = [NodeV { owner: N_APEX, sets: &S_MX_MX }];
static NODES_H_MX2: [NodeV; 1] = [NodeV { owner: N_H, sets: &S_MX_NSZ_MX }];
static NODES_H_CNAME1: [NodeV; 1] = [NodeV { owner: N_H, sets: &S_CNAME1 }];
static NODES_H_CNAME2: [NodeV; 1] = [NodeV { owner: N_H, sets: &S_CNAME2 }];
static NODES_H_CNAME1_A: [NodeV; 1] = [NodeV { owner: N_H, sets: &S_CNAME1_A }];
static NODES_H_TXT_CNAME2: [NodeV; 1] = [NodeV { owner: N_H, sets: &S_TXT_CNAME2 }];
static NODES_H_A_TXT: [NodeV; 1] = [NodeV { owner: N_H, sets: &S_A_TXT }];

const FOUND_A: Ans = Ans::Found { a: true, aaaa: false };

/// Facts of a zone whose apex is in order (one SOA, NS ns. with an A record).
fn base<'f>(
    class: Class,
    class_code: u16,
    policy: GluePolicy,
    wide: bool,
    nodes: &'f [NodeV],
    hints: &'f [(usize, bool)],
) -> Facts<'f> {
    let mut table = no_table();
    table[N_NSZ][0] = FOUND_A;
    Facts {
        class,
        class_code,
        policy,
        wide,
        soa: Some(&RS_SOA1),
        ns: Some(&RS_NS_NSZ),
        nodes,
        table,
        hints,
    }
}

// hint sequences (see `Facts::hints`); every scenario's apex NS set comes first
static H_NSZ: [(usize, bool); 1] = [(N_NSZ, false)];
static H_OUT_NSZ: [(usize, bool); 2] = [(N_OUT, false), (N_NSZ, false)];
static H_NSZ_NSE_GLUE: [(usize, bool); 3] = [(N_NSZ, false), (N_NSE, false), (N_NSE, true)];
static H_NSZ_MX: [(usize, bool); 2] = [(N_NSZ, false), (N_MX, false)];

// --------------------------------------------------------------------------
// harnesses
// --------------------------------------------------------------------------

// @harness kani="--no-assertion-reach-checks" props=C21 tier=quick mem=3 t=600 cbmc="--max-field-sensitivity-array-size 256"
//   fn="validation::validate,ValidationIssue::is_error"
//   bound="zones without nodes: soa() in {none, 1 RDATA, 2 RDATA} x ns() in {none, {ns.} with an address} (6 concrete zones, validated one after the other); class in {IN,CH,HS} and glue policy symbolic; unwind 4"
//   sym="class, policy" stubs="S1,M1"
#[kani::proof]
#[kani::unwind(4)]
fn c21_apex_soa_ns_presence() {
    let (class, class_code) = any_class();
    let (policy, wide) = any_policy();
    let mut f = base(class, class_code, policy, wide, &NODES_NONE, &H_NSZ);
    let e11 = run(&f, 2);
    f.soa = None;
    let e01 = run(&f, 2);
    f.soa = Some(&RS_SOA2);
    let e21 = run(&f, 2);
    f.ns = None;
    let e20 = run(&f, 2);
    f.soa = None;
    let e00 = run(&f, 2);
    f.soa = Some(&RS_SOA1);
    let e10 = run(&f, 2);
    kani::cover!(e11.is_empty(), "one SOA, NS with address: clean");
    kani::cover!(e01.missing_soa && !e01.missing_ns, "missing SOA only");
    kani::cover!(e21.too_many_soas && !e21.missing_soa, "two SOAs");
    kani::cover!(e20.too_many_soas && e20.missing_ns, "two SOAs, no NS");
    kani::cover!(e00.missing_soa && e00.missing_ns, "neither SOA nor NS");
    kani::cover!(e10.missing_ns && !e10.missing_soa && !e10.too_many_soas, "missing NS only");
}

// @harness kani="--no-assertion-reach-checks" props=C21 tier=quick mem=3 t=600 cbmc="--max-field-sensitivity-array-size 256"
//   fn="validation::validate,check_apex_ns_address,class_has_addrs,addrs_found"
//   bound="zone without nodes, one SOA, ns() = {ns.}; lookup_addrs(ns.) symbolic: Found with any of A/AAAA present, Cname, NxDomain, Referral(d.), WrongZone; class in {IN,CH,HS} and policy symbolic; unwind 4"
//   sym="class, policy, 1 table entry" stubs="S1,M1"
#[kani::proof]
#[kani::unwind(4)]
fn c21_apex_ns_one() {
    let (class, class_code) = any_class();
    let (policy, wide) = any_policy();
    let mut f = base(class, class_code, policy, wide, &NODES_NONE, &H_NSZ);
    f.table[N_NSZ][0] = any_ans(N_D);
    let e = run(&f, 1);
    let t = f.table[N_NSZ][0];
    kani::cover!(e.is_empty() && class_code == 1 && matches!(t, Ans::Found { a: false, aaaa: true }), "IN: AAAA alone is an address");
    kani::cover!(e.has(K_NS_ADDR, N_NSZ) && class_code == 3 && matches!(t, Ans::Found { a: false, aaaa: true }), "CH: AAAA alone is not an address");
    kani::cover!(e.has(K_NS_ADDR, N_NSZ) && matches!(t, Ans::Cname), "NS target is an alias");
    kani::cover!(e.is_empty() && class_code == 4 && matches!(t, Ans::NxDomain), "HS: no address checks");
    kani::cover!(e.is_empty() && class_code == 1 && matches!(t, Ans::Referral { .. }), "apex NS below a delegation: nothing to report");
}

fn apex_ns_two(first: Ans) -> (IssueSet, Ans, u16) {
    let (class, class_code) = any_class();
    let (policy, wide) = any_policy();
    let mut f = base(class, class_code, policy, wide, &NODES_NONE, &H_OUT_NSZ);
    f.ns = Some(&RS_NS_OUT_NSZ);
    f.table[N_OUT][0] = first;
    f.table[N_NSZ][0] = any_ans(N_D);
    (run(&f, 2), f.table[N_NSZ][0], class_code)
}

// @harness kani="--no-assertion-reach-checks" props=C21 tier=quick mem=3 t=600 cbmc="--max-field-sensitivity-array-size 256"
//   fn="validation::validate,check_apex_ns_address"
//   bound="zone without nodes, ns() = {x., ns.}; x. answered WrongZone (out of zone), lookup_addrs(ns.) symbolic (all 5 kinds, A/AAAA presence); class, policy symbolic; unwind 4"
//   sym="class, policy, 1 table entry" stubs="S1,M1"
#[kani::proof]
#[kani::unwind(4)]
fn c21_apex_ns_two_outside() {
    let (e, t, cc) = apex_ns_two(Ans::WrongZone);
    kani::cover!(e.is_empty() && cc == 1, "out-of-zone and addressed name servers: clean");
    kani::cover!(e.has(K_NS_ADDR, N_NSZ) && !e.has(K_NS_ADDR, N_OUT) && matches!(t, Ans::NxDomain), "only the in-zone name server is reported");
}

// @harness kani="--no-assertion-reach-checks" props=C21 tier=quick mem=3 t=900 cbmc="--max-field-sensitivity-array-size 256"
//   fn="validation::validate,check_apex_ns_address"
//   bound="zone without nodes, ns() = {x., ns.}; x. answered NxDomain (always an issue in IN/CH), lookup_addrs(ns.) symbolic; class, policy symbolic: up to two MissingNsAddress issues with different names; unwind 4"
//   sym="class, policy, 1 table entry" stubs="S1,M1"
#[kani::proof]
#[kani::unwind(4)]
fn c21_apex_ns_two_both() {
    let (e, t, cc) = apex_ns_two(Ans::NxDomain);
    kani::cover!(e.has(K_NS_ADDR, N_NSZ) && e.has(K_NS_ADDR, N_OUT), "two name servers without address");
    kani::cover!(!e.has(K_NS_ADDR, N_NSZ) && e.has(K_NS_ADDR, N_OUT) && matches!(t, Ans::Found { a: true, .. }), "one of two");
    kani::cover!(e.is_empty() && cc == 4, "HS: none");
}

// DISABLED (through the real validate this is out of reach).  MEASURED (root zone, unwind 4): 1488 loop unwindings in ~2 h, then CBMC out of memory at 9.6 GB; with apex z. and unwind 6: not finished after 85 min.  Superseded by c21_scan_delegation_sibling_ns.
// @disabled-harness props=C21 tier=thorough mem=8 t=7200 cbmc="--max-field-sensitivity-array-size 256"
//   fn="validation::validate,scan_node,check_delegation_ns_address,check_glue"
//   bound="apex in order; node d. {NS ns.e.} where ns.e. lies in the SIBLING delegation e. (lookup answers Referral(e.)); the glue lookup (search_below_cuts) symbolic; class and glue policy symbolic: narrow needs no glue, wide does; unwind 4"
//   sym="class, policy, 1 table entry" stubs="S1,M1"
#[kani::proof]
#[kani::unwind(4)]
fn c21_delegation_sibling_ns() {
    let (class, class_code) = any_class();
    let (policy, wide) = any_policy();
    let mut f = base(class, class_code, policy, wide, &NODES_D_NSE, &H_NSZ_NSE_GLUE);
    f.table[N_NSE][0] = Ans::Referral { child: N_E };
    f.table[N_NSE][1] = any_ans(N_E);
    let e = run(&f, 1);
    let t1 = f.table[N_NSE][1];
    kani::cover!(e.is_empty() && !wide && class_code == 1 && matches!(t1, Ans::NxDomain), "narrow: sibling-zone name server needs no glue");
    kani::cover!(e.has(K_GLUE, N_NSE) && wide && matches!(t1, Ans::NxDomain), "wide: sibling-zone name server needs glue");
    kani::cover!(e.is_empty() && wide && class_code == 1 && matches!(t1, Ans::Found { a: true, .. }), "wide: sibling glue present");
}

// @harness kani="--no-assertion-reach-checks" props=C21 tier=quick mem=6 t=1500 cbmc="--max-field-sensitivity-array-size 256"
//   fn="validation::validate,scan_node"
//   bound="apex in order; node h. with, in turn, {CNAME x1}, {CNAME x2}, {CNAME x1, A}, {TXT, CNAME x2}, {A, TXT} (5 concrete zones); class, policy symbolic; unwind 4"
//   sym="class, policy" stubs="S1,M1"
#[kani::proof]
#[kani::unwind(4)]
fn c21_cname_nodes() {
    let (class, class_code) = any_class();
    let (policy, wide) = any_policy();
    let e1 = run(&base(class, class_code, policy, wide, &NODES_H_CNAME1, &H_NSZ), 2);
    let e2 = run(&base(class, class_code, policy, wide, &NODES_H_CNAME2, &H_NSZ), 2);
    let e3 = run(&base(class, class_code, policy, wide, &NODES_H_CNAME1_A, &H_NSZ), 2);
    let e4 = run(&base(class, class_code, policy, wide, &NODES_H_TXT_CNAME2, &H_NSZ), 2);
    let e5 = run(&base(class, class_code, policy, wide, &NODES_H_A_TXT, &H_NSZ), 2);
    kani::cover!(e1.is_empty(), "a lone CNAME is fine");
    kani::cover!(e2.has(K_DUP_CNAME, N_H) && !e2.has(K_CNAME_OTHER, N_H), "duplicate CNAME only");
    kani::cover!(e3.has(K_CNAME_OTHER, N_H) && !e3.has(K_DUP_CNAME, N_H), "CNAME and other data only");
    kani::cover!(e4.has(K_CNAME_OTHER, N_H) && e4.has(K_DUP_CNAME, N_H), "both CNAME issues");
    kani::cover!(e5.is_empty(), "A + TXT is fine");
}

// DISABLED (through the real validate this is out of reach).  MEASURED (apex z. replaced by the root zone, unwind 4, --max-field-sensitivity-array-size 256): 46 min of symbolic execution, then CBMC out of memory at 14.2 GB.  Superseded by c21_scan_mx_one.
// @disabled-harness props=C21 tier=thorough mem=8 t=10800 cbmc="--max-field-sensitivity-array-size 256"
//   fn="validation::validate,scan_node,check_mx_address"
//   bound="apex in order; apex node {MX mx.}; lookup_addrs(mx.) symbolic; class, policy symbolic; unwind 4"
//   sym="class, policy, 1 table entry" stubs="S1,M1"
#[kani::proof]
#[kani::unwind(4)]
fn c21_mx_one() {
    let (class, class_code) = any_class();
    let (policy, wide) = any_policy();
    let mut f = base(class, class_code, policy, wide, &NODES_APEX_MX, &H_NSZ_MX);
    f.table[N_MX][0] = any_ans(N_D);
    let e = run(&f, 1);
    let t = f.table[N_MX][0];
    kani::cover!(e.has(K_MX_ADDR, N_MX) && matches!(t, Ans::NxDomain), "mail exchanger does not exist");
    kani::cover!(e.has(K_MX_ADDR, N_MX) && class_code == 3 && matches!(t, Ans::Found { a: false, aaaa: true }), "CH: AAAA is not an address");
    kani::cover!(e.is_empty() && class_code == 1 && matches!(t, Ans::Found { a: false, aaaa: true }), "IN: AAAA is an address");
    kani::cover!(e.is_empty() && class_code == 1 && matches!(t, Ans::Referral { .. }), "exchanger below a delegation: nothing to report");
    kani::cover!(e.is_empty() && class_code == 4 && matches!(t, Ans::NxDomain), "HS: no address checks");
}

// @harness kani="--no-assertion-reach-checks" props=C21 tier=quick mem=8 t=1800 cbmc="--max-field-sensitivity-array-size 256"
//   fn="Name::try_from_uncompressed_all,RdataSetOwned::from,RdataSetOwned::insert,RdataSet::iter"
//   bound="harness self-check: every static Name view equals the Name the public parser builds from the same wire form (label count, wire, every label), every static RdataSet view has the octets RdataSetOwned builds from the same RDATA; unwind 50 (all loops concrete)"
//   sym="none" stubs=""
#[kani::proof]
#[kani::unwind(50)]
fn c21_inputs_wellformed() {
    let mut i = 0;
    while i < NPOOL {
        let p = pool(i);
        let view = p.name();
        let real = Name::try_from_uncompressed_all(p.wire()).unwrap();
        assert!(view.len() == real.len(), "[C21] harness: Name view has the parser's label count");
        assert!(wire_is(view.wire_repr(), real.wire_repr()), "[C21] harness: Name view has the parser's wire form");
        let mut k = 0;
        while k < real.len() {
            let a = view[k].octets();
            let b = real[k].octets();
            assert!(a.len() == b.len() && a.len() <= 2, "[C21] harness: Name view label length");
            assert!(
                (a.len() < 1 || a[0] == b[0]) && (a.len() < 2 || a[1] == b[1]),
                "[C21] harness: Name view label octets"
            );
            k += 1;
        }
        assert!(which_wire(real.wire_repr()) == i, "[C21] harness: pool names are pairwise different");
        core::mem::forget(real);
        i += 1;
    }
    kani::cover!(pool(N_WILD).name().is_wildcard() && !pool(N_D).name().is_wildcard(), "wildcard view recognised");
    check_set(&RS_A);
    check_set(&RS_SOA2);
    check_set(&RS_NS_NSD_NSZ);
    check_set(&RS_NS_OUT_NSZ);
    check_set(&RS_CNAME2);
    check_set(&RS_MX_NSZ_MX);
    check_set(&RS_TXT);
}

/// The raw view must be octet for octet what RdataSetOwned holds for the
/// same RDATA (inserted with a type whose equality is plain octet equality).
fn check_set(raw: &'static [u8]) {
    let w = ref_walk(raw);
    let r0: &Rdata = (&raw[w.at[0]..w.at[0] + w.len[0]]).try_into().unwrap();
    let mut owned = RdataSetOwned::from(r0);
    if w.n == 2 {
        let r1: &Rdata = (&raw[w.at[1]..w.at[1] + w.len[1]]).try_into().unwrap();
        let inserted = owned.insert(Class::IN, Type::from(65280), r1);
        assert!(inserted, "[C21] harness: the two RDATA of a view differ");
    }
    let real: &RdataSet = &owned;
    let octets: &[u8] = unsafe { &*(real as *const RdataSet as *const [u8]) };
    assert!(octets.len() == raw.len(), "[C21] harness: RdataSet view has the owned set's length");
    let mut i = 0;
    while i < raw.len() {
        assert!(octets[i] == raw[i], "[C21] harness: RdataSet view has the owned set's octets");
        i += 1;
    }
    assert!(rdataset_view(raw).iter().count() == w.n, "[C21] harness: RdataSet view iterates its RDATA");
    core::mem::forget(owned);
}

// --------------------------------------------------------------------------
// scan_node called directly
// --------------------------------------------------------------------------
//
// Through `validate`, a node's RRsets reach scan_node in a heap `Vec`
// (`rrsets.collect()`), which CBMC cannot see through (see the top of the
// file).  The harnesses below call the private `scan_node` themselves and
// hand it the RRsets in a `Vec` laid over a STACK array (capacity 0, so that
// dropping it frees nothing; the Vec is only iterated and dropped by
// scan_node, its elements borrow static data).  What is then NOT exercised
// is validate's three-line loop `for (owner, rrsets) in zone.iter_by_node()
// { scan_node(zone, owner, rrsets.collect(), &mut issues)?; }`, which
// c21_cname_nodes covers through the real validate.

/// The RRsets of one node as scan_node wants them: a `Vec` of at most two
/// elements laid over the caller's stack array.
fn stack_rrsets<'a>(node: &NodeV, arr: &'a mut [IteratedRrset<'static>; 2]) -> Vec<IteratedRrset<'a>> {
    let n = node.sets.len();
    assert!(n >= 1 && n <= 2, "[C21] harness: run_scan handles nodes with one or two RRsets");
    let s0 = &node.sets[0];
    let s1 = &node.sets[if n > 1 { 1 } else { 0 }];
    arr[0] = IteratedRrset {
        rr_type: Type::from(s0.rtype),
        ttl: Ttl::from(60),
        rdatas: Cow::Borrowed(rdataset_view(s0.raw)),
    };
    arr[1] = IteratedRrset {
        rr_type: Type::from(s1.rtype),
        ttl: Ttl::from(60),
        rdatas: Cow::Borrowed(rdataset_view(s1.raw)),
    };
    unsafe { Vec::from_raw_parts(arr.as_mut_ptr(), n, 0) }
}

fn blank_rrsets() -> [IteratedRrset<'static>; 2] {
    [
        IteratedRrset {
            rr_type: Type::from(T_TXT),
            ttl: Ttl::from(0),
            rdatas: Cow::Borrowed(rdataset_view(&RS_TXT)),
        },
        IteratedRrset {
            rr_type: Type::from(T_TXT),
            ttl: Ttl::from(0),
            rdatas: Cow::Borrowed(rdataset_view(&RS_TXT)),
        },
    ]
}

/// Runs scan_node on the nodes of `f` (one or two, each with at most 2
/// RRsets), collecting into ONE issue set as validate does, and compares the
/// issues with the reference for a zone whose apex contributes nothing
/// (`f.soa` has one RDATA, `f.ns` names only x., which the table disowns).
fn run_scan(f: &Facts, cap: usize) -> IssueSet {
    let exp = ref_validate(f);
    let zone = MockZone {
        f: *f,
        calls: core::cell::Cell::new(0),
    };
    assert!(f.nodes.len() >= 1 && f.nodes.len() <= 2, "[C21] harness: run_scan handles one or two nodes");
    let mut issues: HashSet<ValidationIssue> = HashSet::new();
    let mut arr0 = blank_rrsets();
    let r0 = scan_node(&zone, pool(f.nodes[0].owner).name(), stack_rrsets(&f.nodes[0], &mut arr0), &mut issues);
    assert!(r0.is_ok(), "[C21] scan_node fails on a node whose RDATA is all valid");
    let mut arr1 = blank_rrsets();
    if f.nodes.len() == 2 {
        let r1 = scan_node(&zone, pool(f.nodes[1].owner).name(), stack_rrsets(&f.nodes[1], &mut arr1), &mut issues);
        assert!(r1.is_ok(), "[C21] scan_node fails on a node whose RDATA is all valid");
    }
    let mut seen = IssueSet::empty();
    assert!(issues.len() <= cap, "[C21] more issues than the scenario can have");
    let mut it = issues.iter();
    let mut i = 0;
    while i < cap {
        match it.next() {
            Some(issue) => note(issue, &exp, &mut seen),
            None => break,
        }
        i += 1;
    }
    assert!(seen.same(&exp), "[C21] an issue found by the reference checker is not reported");
    core::mem::forget(issues);
    core::mem::forget(arr0);
    core::mem::forget(arr1);
    exp
}

/// Facts of a zone whose apex contributes no issue and no address lookup
/// that matters: one SOA, ns() = {x.}, x. disowned (WrongZone).
fn quiet_apex<'f>(
    class: Class,
    class_code: u16,
    policy: GluePolicy,
    wide: bool,
    nodes: &'f [NodeV],
    hints: &'f [(usize, bool)],
) -> Facts<'f> {
    let mut f = base(class, class_code, policy, wide, nodes, hints);
    f.ns = Some(&RS_NS_OUT);
    f.table[N_OUT][0] = Ans::WrongZone;
    f
}

static H_NSE_GLUE: [(usize, bool); 2] = [(N_NSE, false), (N_NSE, true)];
static H_NSD_GLUE: [(usize, bool); 2] = [(N_NSD, false), (N_NSD, true)];

// @harness replay=solver kani="--no-assertion-reach-checks" props=C21 tier=quick mem=3 t=900 cbmc="--max-field-sensitivity-array-size 256"
//   fn="validation::scan_node,check_delegation_ns_address,check_glue,class_has_addrs,addrs_found"
//   bound="scan_node on node d. {NS ns.e.} where ns.e. lies in the SIBLING delegation e. (plain lookup answers Referral(e.)); the glue lookup (search_below_cuts) symbolic: 5 kinds, A/AAAA presence; class and glue policy symbolic: narrow needs no glue, wide does; unwind 4"
//   sym="class, policy, 1 table entry" stubs="S1,M1"
#[kani::proof]
#[kani::unwind(4)]
fn c21_scan_delegation_sibling_ns() {
    let (class, class_code) = any_class();
    let (policy, wide) = any_policy();
    let mut f = quiet_apex(class, class_code, policy, wide, &NODES_D_NSE, &H_NSE_GLUE);
    f.table[N_NSE][0] = Ans::Referral { child: N_E };
    f.table[N_NSE][1] = any_ans(N_E);
    let e = run_scan(&f, 1);
    let t1 = f.table[N_NSE][1];
    kani::cover!(e.is_empty() && !wide && class_code == 1 && matches!(t1, Ans::NxDomain), "narrow: sibling-zone name server needs no glue");
    kani::cover!(e.has(K_GLUE, N_NSE) && wide && matches!(t1, Ans::NxDomain), "wide: sibling-zone name server needs glue");
    kani::cover!(e.is_empty() && wide && class_code == 1 && matches!(t1, Ans::Found { a: true, .. }), "wide: sibling glue present");
}

// @harness replay=solver kani="--no-assertion-reach-checks" props=C21 tier=quick mem=6 t=1800 cbmc="--max-field-sensitivity-array-size 256"
//   fn="validation::scan_node,check_delegation_ns_address,check_glue,class_has_addrs,addrs_found"
//   bound="scan_node on node d. {NS ns.d.}; plain lookup of ns.d.: each of the 5 kinds in turn (Found with symbolic A/AAAA presence, Cname, NxDomain, Referral(d.), WrongZone) x a symbolic answer to the glue lookup (5 kinds, A/AAAA presence); class and glue policy symbolic; unwind 4"
//   sym="class, policy, A/AAAA presence, glue-lookup table entry" stubs="S1,M1"
#[kani::proof]
#[kani::unwind(4)]
fn c21_scan_delegation_own_ns() {
    let (class, class_code) = any_class();
    let (policy, wide) = any_policy();
    let mut f = quiet_apex(class, class_code, policy, wide, &NODES_D_NSD, &H_NSD_GLUE);
    let t1 = any_ans(N_D);
    f.table[N_NSD][1] = t1;
    let mut es = [IssueSet::empty(); NKIND];
    let mut ts = [Ans::Cname; NKIND];
    // the five kinds one after the other (written out: a loop of 5 would need unwind 6)
    ts[0] = kind_ans(0, N_D);
    f.table[N_NSD][0] = ts[0];
    es[0] = run_scan(&f, 1);
    ts[1] = kind_ans(1, N_D);
    f.table[N_NSD][0] = ts[1];
    es[1] = run_scan(&f, 1);
    ts[2] = kind_ans(2, N_D);
    f.table[N_NSD][0] = ts[2];
    es[2] = run_scan(&f, 1);
    ts[3] = kind_ans(3, N_D);
    f.table[N_NSD][0] = ts[3];
    es[3] = run_scan(&f, 1);
    ts[4] = kind_ans(4, N_D);
    f.table[N_NSD][0] = ts[4];
    es[4] = run_scan(&f, 1);
    let e = &es[3];
    kani::cover!(e.has(K_GLUE, N_NSD) && !wide && matches!(t1, Ans::NxDomain), "narrow: missing glue for a name server inside the delegation");
    kani::cover!(e.has(K_GLUE, N_NSD) && wide && matches!(t1, Ans::Found { a: false, aaaa: false }), "wide: glue node without addresses");
    kani::cover!(e.is_empty() && class_code == 1 && matches!(t1, Ans::Found { a: false, aaaa: true }), "IN: AAAA glue suffices");
    kani::cover!(e.has(K_GLUE, N_NSD) && class_code == 3 && matches!(t1, Ans::Found { a: false, aaaa: true }), "CH: AAAA glue does not count");
    kani::cover!(e.is_empty() && class_code == 4 && matches!(t1, Ans::NxDomain), "HS: no glue check");
    kani::cover!(es[0].has(K_NS_ADDR, N_NSD) && matches!(ts[0], Ans::Found { a: false, .. }), "name server in the zone proper without address");
    kani::cover!(es[0].is_empty() && class_code == 1 && matches!(ts[0], Ans::Found { a: true, .. }), "name server in the zone proper with address");
    kani::cover!(es[1].has(K_NS_ADDR, N_NSD) && es[2].has(K_NS_ADDR, N_NSD), "alias / non-existent name server");
    kani::cover!(es[4].is_empty() && class_code == 1, "out-of-zone name server: nothing needed");
}

static H_NSD_GLUE_NSZ_GLUE: [(usize, bool); 4] = [(N_NSD, false), (N_NSD, true), (N_NSZ, false), (N_NSZ, true)];

// DISABLED, not completed: 1413 loop unwindings in 50 min of symbolic execution (machine load 30-40) when stopped.
// @disabled-harness props=C21 tier=thorough mem=10 t=14400 cbmc="--max-field-sensitivity-array-size 256"
//   fn="validation::scan_node,check_delegation_ns_address,check_glue"
//   bound="scan_node on node d. {NS ns.d., NS ns.}; ns.d. is below the cut d. and has no glue (always MissingGlue in IN/CH); plain lookup of ns.: each of the 5 kinds in turn (a referral names the SIBLING e., whose glue lookup fails); class, policy symbolic; up to two named issues; unwind 4"
//   sym="class, policy, A/AAAA presence" stubs="S1,M1"
#[kani::proof]
#[kani::unwind(4)]
fn c21_scan_delegation_two_ns() {
    let (class, class_code) = any_class();
    let (policy, wide) = any_policy();
    let mut f = quiet_apex(class, class_code, policy, wide, &NODES_D_NSD_NSZ, &H_NSD_GLUE_NSZ_GLUE);
    f.table[N_NSD][0] = Ans::Referral { child: N_D };
    f.table[N_NSD][1] = Ans::NxDomain;
    let mut es = [IssueSet::empty(); NKIND];
    let mut ts = [Ans::Cname; NKIND];
    // the five kinds one after the other (written out: a loop of 5 would need unwind 6)
    ts[0] = kind_ans(0, N_E);
    f.table[N_NSZ][0] = ts[0];
    es[0] = run_scan(&f, 2);
    ts[1] = kind_ans(1, N_E);
    f.table[N_NSZ][0] = ts[1];
    es[1] = run_scan(&f, 2);
    ts[2] = kind_ans(2, N_E);
    f.table[N_NSZ][0] = ts[2];
    es[2] = run_scan(&f, 2);
    ts[3] = kind_ans(3, N_E);
    f.table[N_NSZ][0] = ts[3];
    es[3] = run_scan(&f, 2);
    ts[4] = kind_ans(4, N_E);
    f.table[N_NSZ][0] = ts[4];
    es[4] = run_scan(&f, 2);
    kani::cover!(es[2].has(K_GLUE, N_NSD) && es[2].has(K_NS_ADDR, N_NSZ), "missing glue and missing address in one RRset");
    kani::cover!(es[0].has(K_GLUE, N_NSD) && !es[0].has(K_NS_ADDR, N_NSZ) && matches!(ts[0], Ans::Found { a: true, .. }), "missing glue only");
    kani::cover!(es[3].has(K_GLUE, N_NSD) && !es[3].has(K_GLUE, N_NSZ) && !wide && class_code == 1, "narrow: second name server in a sibling zone needs no glue");
    kani::cover!(es[3].has(K_GLUE, N_NSD) && es[3].has(K_GLUE, N_NSZ) && wide, "wide: both need glue");
}

static H_NSZ_GLUE: [(usize, bool); 2] = [(N_NSZ, false), (N_NSZ, true)];
static H_NONE: [(usize, bool); 0] = [];
static NODES_APEX_NS: [NodeV; 1] = [NodeV { owner: N_APEX, sets: &S_NS_NSZ }];

// @harness replay=solver kani="--no-assertion-reach-checks" props=C21 tier=quick mem=6 t=1500 cbmc="--max-field-sensitivity-array-size 256"
//   fn="validation::scan_node,check_delegation_ns_address,Name::is_wildcard"
//   bound="scan_node on node *. {NS ns.}: plain lookup of ns.: each of the 5 kinds in turn (a referral names d., whose glue lookup fails): NsAtWildcard (warning) in every class plus the delegation checks; and on the apex node . {NS ns.} with ns. non-existent: nothing (the apex NS set is checked through ns(), not here; any address lookup would fail the harness); class, policy symbolic; unwind 4"
//   sym="class, policy, A/AAAA presence" stubs="S1,M1"
#[kani::proof]
#[kani::unwind(4)]
fn c21_scan_wildcard_and_apex_ns() {
    let (class, class_code) = any_class();
    let (policy, wide) = any_policy();
    let mut f = quiet_apex(class, class_code, policy, wide, &NODES_WILD_NS, &H_NSZ_GLUE);
    let mut es = [IssueSet::empty(); NKIND];
    let mut ts = [Ans::Cname; NKIND];
    // the five kinds one after the other (written out: a loop of 5 would need unwind 6)
    ts[0] = kind_ans(0, N_D);
    f.table[N_NSZ][0] = ts[0];
    es[0] = run_scan(&f, 2);
    ts[1] = kind_ans(1, N_D);
    f.table[N_NSZ][0] = ts[1];
    es[1] = run_scan(&f, 2);
    ts[2] = kind_ans(2, N_D);
    f.table[N_NSZ][0] = ts[2];
    es[2] = run_scan(&f, 2);
    ts[3] = kind_ans(3, N_D);
    f.table[N_NSZ][0] = ts[3];
    es[3] = run_scan(&f, 2);
    ts[4] = kind_ans(4, N_D);
    f.table[N_NSZ][0] = ts[4];
    es[4] = run_scan(&f, 2);
    kani::cover!(es[4].has(K_NS_WILD, N_WILD) && class_code == 4, "NS at wildcard is reported in every class");
    kani::cover!(es[2].has(K_NS_WILD, N_WILD) && es[2].has(K_NS_ADDR, N_NSZ), "warning and error together");
    kani::cover!(es[0].has(K_NS_WILD, N_WILD) && !es[0].has(K_NS_ADDR, N_NSZ) && class_code == 1 && matches!(ts[0], Ans::Found { a: true, .. }), "warning alone");
    kani::cover!(es[3].has(K_NS_WILD, N_WILD) && es[3].has(K_GLUE, N_NSZ) && wide, "wide: glue for a name server below another cut");
    // the apex node's own NS RRset
    let mut g = quiet_apex(class, class_code, policy, wide, &NODES_APEX_NS, &H_NONE);
    g.table[N_NSZ][0] = Ans::NxDomain;
    let ea = run_scan(&g, 1);
    kani::cover!(ea.is_empty() && class_code == 1, "apex NS RRset is not treated as a delegation");
}

static H_MX: [(usize, bool); 1] = [(N_MX, false)];
static H_NSZ_MX_PLAIN: [(usize, bool); 2] = [(N_NSZ, false), (N_MX, false)];

// @harness replay=solver kani="--no-assertion-reach-checks" props=C21 tier=quick mem=4 t=1200 cbmc="--max-field-sensitivity-array-size 256"
//   fn="validation::scan_node,check_mx_address,class_has_addrs,addrs_found"
//   bound="scan_node on the apex node . {MX mx.} with lookup_addrs(mx.) symbolic (5 kinds, A/AAAA presence), then on node h. {MX ns., MX mx.} where ns. exists without any address (concrete) and mx. is symbolic: up to two MissingMxAddress warnings; class, policy symbolic; unwind 4"
//   sym="class, policy, 2 table entries (one per zone)" stubs="S1,M1"
#[kani::proof]
#[kani::unwind(4)]
fn c21_scan_mx() {
    let (class, class_code) = any_class();
    let (policy, wide) = any_policy();
    let mut f = quiet_apex(class, class_code, policy, wide, &NODES_APEX_MX, &H_MX);
    f.table[N_MX][0] = any_ans(N_D);
    let e = run_scan(&f, 1);
    let t = f.table[N_MX][0];
    kani::cover!(e.has(K_MX_ADDR, N_MX) && matches!(t, Ans::NxDomain), "mail exchanger does not exist");
    kani::cover!(e.has(K_MX_ADDR, N_MX) && class_code == 3 && matches!(t, Ans::Found { a: false, aaaa: true }), "CH: AAAA is not an address");
    kani::cover!(e.is_empty() && class_code == 1 && matches!(t, Ans::Found { a: false, aaaa: true }), "IN: AAAA is an address");
    kani::cover!(e.is_empty() && class_code == 1 && matches!(t, Ans::Referral { .. }), "exchanger below a delegation: nothing to report");
    kani::cover!(e.is_empty() && class_code == 4 && matches!(t, Ans::NxDomain), "HS: no address checks");
    let mut g = quiet_apex(class, class_code, policy, wide, &NODES_H_MX2, &H_NSZ_MX_PLAIN);
    g.table[N_NSZ][0] = Ans::Found { a: false, aaaa: false };
    g.table[N_MX][0] = any_ans(N_D);
    let e2 = run_scan(&g, 2);
    kani::cover!(e2.has(K_MX_ADDR, N_NSZ) && e2.has(K_MX_ADDR, N_MX), "two exchangers without address");
    kani::cover!(e2.has(K_MX_ADDR, N_NSZ) && !e2.has(K_MX_ADDR, N_MX) && class_code == 1, "second exchanger fine");
}

static NODES_D_NS_CNAME2: [NodeV; 1] = [NodeV { owner: N_D, sets: &S_NS_NSD_CNAME2 }];
static NODES_TWO_NS_NSZ: [NodeV; 2] = [NodeV { owner: N_D, sets: &S_NS_NSZ }, NodeV { owner: N_E, sets: &S_NS_NSZ }];
static NODES_TWO_MX: [NodeV; 2] = [NodeV { owner: N_APEX, sets: &S_MX_MX }, NodeV { owner: N_H, sets: &S_MX_MX }];
static H_NSZ_NSZ: [(usize, bool); 2] = [(N_NSZ, false), (N_NSZ, false)];
static H_MX_MX: [(usize, bool); 2] = [(N_MX, false), (N_MX, false)];

// DISABLED, not completed: 2285 loop unwindings in 50 min of symbolic execution (machine load 30-40) when stopped; its part (b) is the quick harness c21_scan_same_issue_once; its part (a) alone (c21_scan_ns_and_cnames) ran out of memory at 34.5 GB, so this harness is expected to be out of reach as well.
// @disabled-harness props=C21 tier=thorough mem=10 t=14400 cbmc="--max-field-sensitivity-array-size 256"
//   fn="validation::scan_node,check_delegation_ns_address,check_glue,check_mx_address,ValidationIssue::is_error"
//   bound="concrete zones, class IN/CH and glue policy symbolic: (a) node d. {NS ns.d. below the cut without glue, CNAME x2}: MissingGlue + DuplicateCname + OtherRecordsAtCname; (b) nodes d. {NS ns.} and e. {NS ns.} with ns. non-existent: ONE MissingNsAddress; (c) nodes . {MX mx.} and h. {MX mx.} with mx. non-existent: ONE MissingMxAddress; the five CNAME shapes of c21_cname_nodes again; unwind 5"
//   sym="class in {IN, CH}, policy" stubs="S1,M1"
#[kani::proof]
#[kani::unwind(5)]
fn c21_scan_several_issues() {
    let (policy, wide) = any_policy();
    let ch: bool = kani::any();
    let (class, class_code) = if ch { (Class::CH, 3) } else { (Class::IN, 1) };
    let mut f = quiet_apex(class, class_code, policy, wide, &NODES_D_NS_CNAME2, &H_NSD_GLUE);
    f.table[N_NSD][0] = Ans::Referral { child: N_D };
    f.table[N_NSD][1] = Ans::Cname;
    let e = run_scan(&f, 3);
    kani::cover!(e.has(K_GLUE, N_NSD) && e.has(K_DUP_CNAME, N_D) && e.has(K_CNAME_OTHER, N_D), "three issues from one node");
    let mut g = quiet_apex(class, class_code, policy, wide, &NODES_TWO_NS_NSZ, &H_NSZ_NSZ);
    g.table[N_NSZ][0] = Ans::NxDomain;
    let e2 = run_scan(&g, 1);
    kani::cover!(e2.has(K_NS_ADDR, N_NSZ), "one issue from two delegations");
    let mut h = quiet_apex(class, class_code, policy, wide, &NODES_TWO_MX, &H_MX_MX);
    h.table[N_MX][0] = Ans::NxDomain;
    let e3 = run_scan(&h, 1);
    kani::cover!(e3.has(K_MX_ADDR, N_MX), "one warning from two MX RRsets");
    let c1 = run_scan(&quiet_apex(class, class_code, policy, wide, &NODES_H_CNAME1, &H_NONE), 2);
    let c2 = run_scan(&quiet_apex(class, class_code, policy, wide, &NODES_H_CNAME2, &H_NONE), 2);
    let c3 = run_scan(&quiet_apex(class, class_code, policy, wide, &NODES_H_CNAME1_A, &H_NONE), 2);
    let c4 = run_scan(&quiet_apex(class, class_code, policy, wide, &NODES_H_TXT_CNAME2, &H_NONE), 2);
    let c5 = run_scan(&quiet_apex(class, class_code, policy, wide, &NODES_H_A_TXT, &H_NONE), 2);
    kani::cover!(c1.is_empty() && c5.is_empty(), "lone CNAME and A + TXT are fine");
    kani::cover!(c2.has(K_DUP_CNAME, N_H) && !c2.has(K_CNAME_OTHER, N_H), "duplicate CNAME only");
    kani::cover!(c3.has(K_CNAME_OTHER, N_H) && !c3.has(K_DUP_CNAME, N_H), "CNAME and other data only");
    kani::cover!(c4.has(K_CNAME_OTHER, N_H) && c4.has(K_DUP_CNAME, N_H), "both CNAME issues");
}

// DISABLED, out of reach.  MEASURED: symbolic execution 176 s, then the solver phase grew to 34.5 GB RSS and CBMC
// ran out of memory (three issues from one node: every HashSet::contains compares heap Names under symbolic control).
// @disabled-harness props=C21 tier=quick mem=6 t=3600 cbmc="--max-field-sensitivity-array-size 256"
//   fn="validation::scan_node,check_delegation_ns_address,check_glue,ValidationIssue::is_error"
//   bound="scan_node on node d. {NS ns.d. below the cut without glue, CNAME x2} (concrete): exactly MissingGlue(ns.d.) + DuplicateCname(d.) + OtherRecordsAtCname(d.); class IN, glue policy symbolic; unwind 5"
//   sym="policy" stubs="S1,M1"
#[kani::proof]
#[kani::unwind(5)]
fn c21_scan_ns_and_cnames() {
    let (policy, wide) = any_policy();
    let mut f = quiet_apex(Class::IN, 1, policy, wide, &NODES_D_NS_CNAME2, &H_NSD_GLUE);
    f.table[N_NSD][0] = Ans::Referral { child: N_D };
    f.table[N_NSD][1] = Ans::Cname;
    let e = run_scan(&f, 3);
    kani::cover!(e.has(K_GLUE, N_NSD) && e.has(K_DUP_CNAME, N_D) && e.has(K_CNAME_OTHER, N_D), "three issues from one node");
}

// @harness replay=solver kani="--no-assertion-reach-checks" props=C21 tier=quick mem=4 t=600 cbmc="--max-field-sensitivity-array-size 256"
//   fn="validation::scan_node,check_delegation_ns_address"
//   bound="scan_node on nodes d. {NS ns.} and e. {NS ns.} into one issue set, ns. non-existent (concrete): the issue arises twice and is reported once; class IN, glue policy symbolic; unwind 4"
//   sym="policy" stubs="S1,M1"
#[kani::proof]
#[kani::unwind(4)]
fn c21_scan_same_issue_once() {
    let (policy, wide) = any_policy();
    let mut g = quiet_apex(Class::IN, 1, policy, wide, &NODES_TWO_NS_NSZ, &H_NSZ_NSZ);
    g.table[N_NSZ][0] = Ans::NxDomain;
    let e2 = run_scan(&g, 1);
    kani::cover!(e2.has(K_NS_ADDR, N_NSZ), "one issue from two delegations");
}
