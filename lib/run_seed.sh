#!/bin/bash
# run_seed.sh <seed-id> <property> <VERIF_ONLY regex or ''> [tier]
# Applies /verif/seeded/<seed-id>/patch.diff to a scratch copy of /repo's working
# tree (never to /repo itself while other checks are running) and runs the check
# against that copy. Prints the check's verdict.
id=$1; prop=$2; only=$3; tier=${4:-quick}
w=/var/tmp/main/seedrun-$id
rm -rf $w; mkdir -p $w/repo
rsync -a /repo/src /repo/Cargo.toml /repo/Cargo.lock $w/repo/
( cd $w/repo && git init -q . 2>/dev/null; patch -p1 -s < /verif/seeded/$id/patch.diff ) || { echo "patch failed"; exit 2; }
cd /verif
VERIF_EVIDENCE_DIR=$w/evidence VERIF_REPLAY_DIR=$w/replays VERIF_REPO=$w/repo VERIF_SCRATCH=$w VERIF_ONLY="$only" VERIF_JOBS=${VERIF_JOBS:-2} VERIF_MEM_GB=${VERIF_MEM_GB:-16} ./check $prop --tier $tier > $w/out.txt 2>&1
rc=$?
echo "seed=$id property=$prop rc=$rc"
grep "VIOLATION\|KNOWN\|INCONCLUSIVE\|harnesses pass" $w/out.txt | head -8
rm -rf $w/repo $w/quandary-verif-[0-9]*
exit $rc
