#!/usr/bin/env python3
"""C26, pure arithmetic of the RRL refill over FULL u32/u64 ranges (SMT).

The Kani harnesses in rrl.rs run the real `Rrl::process_response`, but with
rates <= 16 (or a few concrete configurations), because CBMC's SAT back end
stalls on symbolic x symbolic multiplication.  This script closes the width
gap for the one expression that multiplies:

    entry.count = entry.count.saturating_sub(<refill>)

It does NOT execute the Rust code: it recognises which of the two known
spellings of the expression is present in $VERIF_REPO/src/server/rrl.rs (text
match, whitespace-normalised) and decides the corresponding hand-written SMT
model against the reference  count - min(count, rate * secs)  (unbounded
integers / 128-bit vectors), for all rate in 1..2^32, count < 2^32,
secs < 2^64:

  original  `rate * since_last_refill.as_secs() as u32`
      QF_BV, exact wrapping / overflow-check semantics; three sat queries
      (overflow reachable; wrong result through `as u32` truncation alone;
      wrong result through a wrapped product with secs < 2^32)   -> exit 1
  patched   `rate.saturating_mul(u32::try_from(secs).unwrap_or(u32::MAX))`
      QF_NIA with the clamps written out; unsat under z3 AND cvc5 -> exit 0
  anything else -> exit 2 (inconclusive: unknown expression)

usage: c26_refill_arith.py [repo-root]     (default $VERIF_REPO or /repo)
"""
import os
import re
import subprocess
import sys
import tempfile

ORIGINAL = "entry.count = entry.count.saturating_sub(rate * since_last_refill.as_secs() as u32);"
PATCHED = ("let secs = u32::try_from(since_last_refill.as_secs()).unwrap_or(u32::MAX); "
           "entry.count = entry.count.saturating_sub(rate.saturating_mul(secs));")

BV_HEADER = """(set-logic QF_BV)
(declare-const rate (_ BitVec 32))
(declare-const count (_ BitVec 32))
(declare-const secs (_ BitVec 64))
(assert (not (= rate #x00000000)))
; reference: count - min(count, rate * secs) in 128-bit arithmetic
(define-fun back128 () (_ BitVec 128) (bvmul ((_ zero_extend 96) rate) ((_ zero_extend 64) secs)))
(define-fun count128 () (_ BitVec 128) ((_ zero_extend 96) count))
(define-fun ref () (_ BitVec 128) (ite (bvult back128 count128) (bvsub count128 back128) (_ bv0 128)))
; original: count.saturating_sub(rate * secs as u32)
(define-fun trunc () (_ BitVec 32) ((_ extract 31 0) secs))
(define-fun wide () (_ BitVec 64) (bvmul ((_ zero_extend 32) rate) ((_ zero_extend 32) trunc)))
(define-fun prod () (_ BitVec 32) ((_ extract 31 0) wide))
(define-fun new () (_ BitVec 32) (ite (bvult prod count) (bvsub count prod) #x00000000))
"""

ORIGINAL_QUERIES = [
    ("with overflow checks the multiplication can panic",
     "(assert (bvugt wide #x00000000ffffffff))"),
    ("without any product overflow, `as u32` truncation alone gives a wrong count",
     "(assert (not (bvugt wide #x00000000ffffffff)))\n(assert (not (= ((_ zero_extend 96) new) ref)))"),
    ("with wrapping arithmetic and secs < 2^32 the count is wrong",
     "(assert (bvult secs #x0000000100000000))\n(assert (not (= ((_ zero_extend 96) new) ref)))"),
]

PATCHED_QUERY = """(set-logic QF_NIA)
(declare-const rate Int)
(declare-const count Int)
(declare-const secs Int)
(define-fun M () Int 4294967295)
(assert (and (<= 1 rate) (<= rate M)))
(assert (and (<= 0 count) (<= count M)))
(assert (and (<= 0 secs) (<= secs 18446744073709551615)))
(define-fun min2 ((a Int) (b Int)) Int (ite (<= a b) a b))
; u32::try_from(secs).unwrap_or(u32::MAX)
(define-fun clamp () Int (ite (> secs M) M secs))
; rate.saturating_mul(clamp)
(define-fun prod () Int (min2 (* rate clamp) M))
; count.saturating_sub(prod)
(define-fun new () Int (ite (>= count prod) (- count prod) 0))
; reference: count - min(count, rate * secs)
(define-fun ref () Int (- count (min2 count (* rate secs))))
(assert (not (= new ref)))
(check-sat)
"""


def run(solver, text, timeout=600):
    with tempfile.NamedTemporaryFile("w", suffix=".smt2", delete=False) as fh:
        fh.write(text)
        path = fh.name
    try:
        out = subprocess.run([solver, path], capture_output=True, text=True, timeout=timeout).stdout
    except subprocess.TimeoutExpired:
        out = "timeout"
    finally:
        os.unlink(path)
    return out.strip()


def main():
    repo = sys.argv[1] if len(sys.argv) > 1 else os.environ.get("VERIF_REPO", "/repo")
    src = open(os.path.join(repo, "src/server/rrl.rs")).read()
    flat = re.sub(r"\s+", " ", src)
    flat = flat.replace("entry .count", "entry.count").replace("entry.count .saturating_sub", "entry.count.saturating_sub")
    if ORIGINAL in flat and PATCHED not in flat:
        bad = 0
        for what, q in ORIGINAL_QUERIES:
            out = run("z3", BV_HEADER + q + "\n(check-sat)\n(get-value (rate count secs))\n")
            verdict = out.split("\n")[0]
            print("original expression: %s: %s" % (what, verdict))
            if verdict == "sat":
                vals = dict(re.findall(r"\((\w+) #x([0-9a-f]+)\)", out))
                print("   rate=%d count=%d secs=%d" % tuple(int(vals[k], 16) for k in ("rate", "count", "secs")))
                bad += 1
            elif verdict != "unsat":
                print("INCONCLUSIVE property=C26 c26_refill_arith: solver said %r" % out[:200])
                return 2
        if bad:
            print("VIOLATION property=C26 refill expression `rate * since_last_refill.as_secs() as u32` "
                  "(src/server/rrl.rs) differs from count - min(count, rate*secs)")
            return 1
        return 0
    if PATCHED in flat and ORIGINAL not in flat:
        ok = True
        for solver in ("z3", "cvc5"):
            out = run(solver, PATCHED_QUERY)
            print("patched expression equals the reference for all u32 rate/count and u64 secs: %s says %s" % (solver, out))
            ok = ok and out == "unsat"
        if ok:
            return 0
        print("INCONCLUSIVE property=C26 c26_refill_arith: the two solvers did not both prove the equality")
        return 2
    print("INCONCLUSIVE property=C26 c26_refill_arith: the refill expression in src/server/rrl.rs is neither of the "
          "two modelled spellings")
    return 2


if __name__ == "__main__":
    sys.exit(main())
