#!/usr/bin/env python3
"""Regenerates /verif/MANIFEST.json from the claims table below and the
harness registry (a property is only listed under `checks` if at least one
quick-tier harness is registered for it)."""
import json
import os
import sys

sys.path.insert(0, os.path.dirname(os.path.abspath(__file__)))
import verif  # noqa

VERIF = verif.VERIF

TECH_K = "bounded model checking of the compiled Rust (Kani 0.68 -> CBMC 6.11 -> CaDiCaL): symbolic inputs, solver verdict over all values within the bound"

CLAIMS = {
    "C01": dict(
        text="Bounded: for every request inside the listed shapes (all values of the symbolic fields) Server::handle_message returns without any panic, overflow, out-of-bounds access or failed unwrap; plus the name/reader/RDATA leaf harnesses for every small buffer. The solver decides all values inside each shape; requests outside the shapes are not covered.",
        note="Shapes: concrete request skeletons with symbolic header/flag/type/class/TTL/count fields (see evidence samples); mock catalogs without loaded zones; RRL off; stubs S4 (should_slip), S7 (ArrayVec::try_extend_from_slice). TCP transport and requests with more than ~40 octets are outside the bound.",
        ref="DESIGN.md A4, A4.1"),
    "C02": dict(
        text="Bounded: every response produced for the listed request shapes is exactly header + echoed question + at most one OPT record in the additional section: counts match the records present, the message ends exactly after the last record, the OPT record is well formed (root owner, RDLENGTH frames its empty RDATA). All values of the symbolic fields are decided by the solver.",
        note="Responses of the no-zone shapes only (their layout is fully determined, so it is checked at concrete offsets; a generic decoder over the 512-octet buffer ran out of memory). Responses with answer data are decoded by the generic reference decoder in the query and writer families (C05, C12, C13).",
        ref="DESIGN.md A4, A4.1"),
    "C03": dict(
        text="Bounded: for all 2^16 IDs and all 2^16 flag/opcode combinations in each request shape, the response echoes ID and opcode, sets QR, copies RD only for QUERY, clears RA and Z, echoes the question octet for octet; short messages, QR=1 and QDCOUNT>1 get no response.",
        note="QNAMEs: root, 'a.', two one-octet labels with fully symbolic octets; longer QNAMEs rely on the writer/name harnesses (C12, C14).",
        ref="DESIGN.md A4.1, B-C03"),
    "C04": dict(
        text="Bounded: (a) through Server::handle_message: response length never exceeds the negotiated UDP limit (512 without EDNS; advertised size clamped to [512, server size] with EDNS) in every server_small shape, for the advertised sizes and server sizes listed in the note; (b) through handle_non_axfr_query with a 64-octet buffer and the writer limit swept over every value 19..=64 (one concrete run per limit, data symbolic): when the complete answer does not fit, UDP sets TC with empty answer/authority/additional sections and TCP answers SERVFAIL with TC clear; when it fits the response is complete; optional additional records may be dropped without TC but in-bailiwick referral glue never silently (Found, negative, MX, referral with A / AAAA / both glue, two NS).",
        note="Advertised sizes are concrete boundary values {0, 513, 4096, 65535} against server sizes {512, 520} (a symbolic size makes the writer limit symbolic and CBMC ran out of memory > 26 GB). TCP at handle_message level needs a 65535-octet buffer, which exhausts CBMC (18 GB+); truncation/TC behaviour is decided by the query family at handle_non_axfr_query level. The UDP-vs-TCP response comparison is not claimed.",
        ref="DESIGN.md A4.1, B-C04"),
    "C07": dict(
        text="Bounded: for every opcode, QTYPE and QCLASS (all 2^16 each) in the Q shapes and every catalog answer kind (none / not yet loaded / failed to load), the RCODE is NOTIMP / REFUSED / SERVFAIL as the property states, with no records besides OPT/TSIG and AA clear. Longest-suffix selection in the real catalog is C22's obligation.",
        note="Catalog is a mock (M1): the claim is about the server's use of the Catalog trait contract.",
        ref="DESIGN.md A4.1, B-C07"),
    "C08": dict(
        text="Bounded: for every request in the malformed shapes (missing question, counts exceeding the message, trailing octets, OPT/TSIG in answer/authority, two OPTs, TSIG not last, unparseable OPT) the RCODE is FORMERR with no answer/authority data unless an EDNS version error was met earlier, judged by an independent in-order request classifier.",
        note="TSIG class/TTL errors are decided in the TSIG family (C10).",
        ref="DESIGN.md A4.1, B-C08"),
    "C09": dict(
        text="Bounded: for every OPT TTL field (all 2^32 values: extended RCODE, version, flags, including bit 31) in the OPT shapes, the response has exactly one OPT (root owner, class = server payload, version 0) iff the request's OPT was reached; version != 0 gives BADVERS without data; non-root owner gives FORMERR.",
        note="Server payload sizes 512 and 520; advertised sizes concrete boundary values (see C04).",
        ref="DESIGN.md A4.1, B-C09"),
    "C14": dict(
        text="Exhaustive within length: for EVERY buffer of N octets (all 256 values per octet, N up to the stated bound) and every start offset including at/after the end, try_from_compressed, skip_compressed, try_from_uncompressed(_all) and validate_uncompressed(_all) agree with an independent RFC 1035 decoder on acceptance, name octets, label table (exercising the unsafe DST layout, with CBMC's memory-safety checks on) and first-chunk length.",
        note="quick: compressed N=3, uncompressed N in {2,5}, validate/skip every length 0..=8, plus the 63-octet-label / 255-octet-name boundaries via a 270-octet buffer whose fourth length octet is symbolic; thorough adds compressed N=4, uncompressed N=8, validate/skip 0..=14. Compressed parsing of names longer than 4 octets is covered only through skip_compressed and the uncompressed parser (parse_compressed_name on the long buffer ran out of memory at 29 GB). Stub S7 (ArrayVec::try_extend_from_slice).",
        ref="DESIGN.md A4, B-C14"),
    "C17": dict(
        text="Exhaustive by solver query: for ALL 65536 values of each 16-bit code (one symbolic u16 per query) Display->FromStr round-trips for Type, Class, Qtype, Qclass; the RFC 3597 TYPEn/CLASSn decimal form assembled in the harness parses to n for every n; every mnemonic of the reference tables parses to its code under every per-letter case mask; Opcode/Rcode TryFrom<u8> accept exactly values < 16 (all 256 values) and Rcode TryFrom<ExtendedRcode> exactly values < 16 with the value preserved.",
        note="Mnemonic tables are written from the RFCs in the harness (RFC 1035, 1995, 2136, 2782, 3596, 6891, 8945). Texts other than canonical Display output, mnemonics in any case and TYPEn/CLASSn without leading zeros are outside the claim (e.g. leading zeros, '+' signs).",
        ref="DESIGN.md A4.2, B-C17"),
    "C12": dict(
        text="Bounded: (a) one-step checks from arbitrary small writer states, all values symbolic: Writer::new / set_limit clamping and the invariant cursor <= available <= limit <= len, try_push and with_rollback atomicity (a failing operation changes nothing), every header field setter vs independent bit extraction, set_extended_rcode for all u16 values with and without EDNS (the 12-bit extended RCODE decoded from OPT TTL and header equals the value given), count overflow on all add paths, TSIG reservation arithmetic; (b) 16 fixed operation programs of <= 3 add operations (question + A/NS/MX/SRV/TXT/CH-A/TYPE65280 records, hints None/Qname/MostRecentOwner/Explicit/MostRecentNameInRdata, three compression modes, clear_rrs, out-of-order refusals, templates) with symbolic ASCII case bits, TTLs, RDATA octets and a symbolic size limit before the last operation: the finished message decodes (independent decoder) to exactly the operations that succeeded, n <= limit, no Truncation when the uncompressed encoding fits, refused operations change nothing.",
        note="64-octet message buffers, one-letter labels, names of 2-4 labels. Stub S8 (Writer::write as element-wise stores, proven equal to the real copy_from_slice by c12_write_matches_model for lengths <= 40). Not covered: finish() of a TSIG-carrying message (finish_with_mac moves state through Option::take; CBMC ran 100 min / 24 GB), signing modes (HMAC is inline asm), SOA/MINFO through the writer, symbolic operation selectors / random programs, failures in the middle of a program other than the concrete refusals of c12_prog_order_clear.",
        ref="DESIGN.md A4.2, B-C12"),
    "C13": dict(
        text="Bounded: on the same operation programs and on dedicated harnesses for the heuristic scan of write_compressed_unhinted_name (two prior names incl. label+pointer forms, compressees of 2-4 labels with symbolic case): every pointer in the finished message points strictly backwards to a label start of an earlier name, none occurs inside SRV, CH-class A or unknown-type RDATA, none at all in Disabled mode, decompressed names equal the names given under the mode's case rule; Rdata::components classifies compressible names exactly for NS, MD, MF, CNAME, MB, MG, MR, PTR, MX, SOA, MINFO for ALL (class, type) pairs.",
        note="Same bounds and stub S8 as C12; pointers to offsets >= 64 and the POINTER_MAX branches are outside the bound.",
        ref="DESIGN.md A4.2, B-C13"),
    "C26": dict(
        text="Bounded: two consecutive calls of the real Rrl::process_response from an ARBITRARY valid bucket state (any key, any count <= rate*window, last refill up to 2^35 s + any nanoseconds in the past) with a symbolic clock (second gap 0..2^35 s + nanoseconds), compared step by step with an independent token bucket in 128-bit arithmetic: bucket count, refill time, the count <= limit invariant, and sent / slipped / dropped by slip value (slip 0 always dropped, slip 1 always slipped, slipped = TC set and no records besides OPT/TSIG). Rates symbolic in 1..=4 (1..=16 thorough) with window 1..=1024, plus concrete extreme configurations (u32::MAX rate, u32::MAX window, 65537x65535, 1000x4194303); RrlParams::new over all u32^4.",
        note="Stubs: S2 Instant::now -> zero Instant + symbolic non-decreasing offset; S4 Rrl::should_slip -> source copy with the rand expression replaced by a symbolic bool (a cover witness string-matches the real source, so a changed should_slip makes the run inconclusive); RandomState built from two fixed keys; table size 1. Outside: symbolic rates > 16 (CBMC stalls on 32x32 multiplication; a hand-written SMT model of the refill expression over full ranges exists as lib/c26_refill_arith.py but is not part of the claim), more than two consecutive responses (rests on the asserted invariant), slip > 1 randomness, elapsed > 2^35 s.",
        ref="DESIGN.md A4.2, B-C26"),
    "C27": dict(
        text="Bounded: two real process_response calls < 1 s apart on a fresh table (rate 1, window 1): the second response is limited iff neither is exempt (TCP, opcode != QUERY, send_response already false), same address family after IPv4-mapped canonicalisation through the real ReceivedInfo::new, same masked prefix (prefix lengths symbolic 0..=32 / 0..=64 through the real setters), same category, and (category != NOERROR or same QNAME ignoring case / same wildcard source of synthesis). Sources: any IPv4 / any of 2^128 IPv6 addresses per response; RCODE 0..=15 or extended 0..=4095; any opcode and flags. ReceivedInfo::new, the prefix setters and ip_to_dest_u64 additionally alone over all addresses and lengths.",
        note="QNAME / source of synthesis concrete per harness (seven two-label configurations); same stubs as C26; distinct QNAMEs colliding in the 32-bit hash and table size > 1 are outside.",
        ref="DESIGN.md A4.2, B-C27"),
    "C15": dict(
        text="Bounded: (a) non-allocating operations on EVERY message of each length 12..=28 (thorough ..=48), all octets symbolic: skip_question, skip_rr, peek_rr (+ rr_type/class/ttl/rdlength/message_to_rr, drop, skip) and their sequences from any reachable cursor: Ok iff an independent reference frames the item, cursor advanced exactly on Ok and unchanged on Err, TTL = RFC 2181 clamp; header accessors on every octet string of length 0..=13; (b) allocating operations (read_question, read_rr, peek+owner+parse) on concrete skeleton messages with symbolic CLASS/TTL/RDLENGTH/RDATA octets, truncated at every length, for opaque types, NS, MX, A (IN, CH, class 2), SOA (thorough): all fields equal the reference incl. decompressed RDATA, failed reads (incl. RDATA invalid for its type, undecodable owner) leave the cursor unchanged.",
        note="Name STRUCTURE inside the allocating operations is concrete per skeleton (symbolic name structure ran 16+ min / 17 GB without a verdict; decided by C14 on small buffers instead). TYPE is concrete per harness. MINFO/SRV/HINFO/TXT/WKS/AAAA/OPT/TSIG RDATA are covered through Rdata::read in C18, not through the reader. Stub S7.",
        ref="DESIGN.md A4.2, B-C15"),
    "C16": dict(
        text="Bounded: (a) Display->FromStr round trip to the identical wire form for every name of shapes root, (1), (2), (1,1) in one query and (1,2), (2,1), (2,2) in two halves meeting at a reference rendering (thorough), all 256 octet values per position; (b) FromStr accepts exactly the strings a reference text parser accepts, with equal wire forms, for EVERY well-formed UTF-8 string of exactly 3 octets (1..=6 thorough); (c) ==, Hash input (recording Hasher), cmp vs an RFC 4034 6.1 reference, antisymmetry, transitivity, eq_or_subdomain_of, superdomain, labels(), Index, wire_repr_from/to, make_ascii_lowercase, LowercaseName against reference computations for all names of wire length <= 5 (<= 7 thorough: every label structure up to 3 labels); (d) NameBuilder one-step induction from an ARBITRARY builder state satisfying the representation invariant (wire length 1..=255, 1..=128 labels, current label 0..=63): try_push / try_push_slice / next_label / finish / finish_with_suffix accept exactly within the 63/255/127 limits, errors leave the state unchanged, the invariant is preserved.",
        note="Long TEXT through FromStr (63/64-octet labels, 255/256-octet names) is not decided end to end (concrete 64- and 255-octet texts exceeded 50 min): those boundaries rest on FromStr == reference for all strings <= 6 octets plus the builder induction, which would miss a position-dependent bug in from_str's loop beyond 6 octets. Eq/Ord/Hash only for wire length <= 7. Stub S7 only in the try_push_slice / finish_with_suffix harnesses.",
        ref="DESIGN.md A4.2, B-C16"),
    "C21": dict(
        text="Bounded, compositional via a mock zone (M1): the real validate / scan_node over zones whose facts (soa(), ns(), nodes, lookup_addrs answers) are small and mostly concrete per scenario with symbolic class (IN/CH/HS), glue policy and lookup answers: the reported issue set equals a reference checker's (no spurious, duplicate or missing issue; is_error false exactly for MissingMxAddress and NsAtWildcard) for: SOA none/1/2 x NS none/one; one and two apex NS with every lookup_addrs answer kind; CNAME x1, x2, CNAME+other data; delegation with own-zone and sibling-zone name servers under narrow and wide glue policy; NS at wildcard; MX with/without address; the same issue reported once.",
        note="Stub S1 (HashSet model), mock zone M1 (may be inconsistent as a zone: superset of real stores). Multi-node zones and several named issues at once through the real validate are out of reach (46 min symex then 14 GB; 2 h / 1488 unwindings): delegation/MX/wildcard scenarios call scan_node directly on one node, validate's own node loop is covered by the CNAME scenarios. Not attempted: malformed RDATA (Err(InvalidRdata)), occluded NS records, mixed-case NS targets.",
        ref="DESIGN.md A4.2, B-C21"),
    "C24": dict(
        text="Bounded, helper level only: Reader::try_fill from every reader state over a 4-octet buffer (start <= end symbolic, contents symbolic) for targets 1, 4, 6: indices never leave the buffer, octets preserved in order, Ok(true) iff the target is available; parse_escape on all 2^24 three-octet continuations and on short inputs; generic RDATA hex digits (4 symbolic octets); parse_type rejects NULL in all 16 case mixes; no panic in any of these.",
        note="The whole-file part of the property (totality for arbitrary bytes, nothing after the first error, validity of every yielded record) could NOT be encoded within reach: CBMC does not constant-fold io::Result<Option<u8>> returns, so every reader call result is symbolic and the whole parser is explored on every path; a 1-octet input ran out of memory at 6-10 GB, a concrete 12-octet record line did not finish. C23 is not claimed for the same reason. Stub S6 (alloc::fmt::format).",
        ref="DESIGN.md A4.2, B-C24"),
    "C10": dict(
        text="Bounded, function level, HMAC abstracted (stub S5 = recording MAC): find_tsig_algorithm_or_write_error, find_tsig_key_or_write_error and verify_tsig_and_write_tsig_rr called on a ReadTsigRr parsed from a small concrete request with symbolic ID/flags/QTYPE/QCLASS/time/fudge/MAC octets, followed (for the unsigned outcomes) by finish_with_mac and the independent decoder: unknown algorithm or key -> NOTAUTH / BADKEY / empty MAC; MAC mismatch -> NOTAUTH / BADSIG / empty MAC for all times; MAC size outside [max(10, out/2), out] -> FORMERR with no MAC computed; in all of these no answer/authority data, TSIG RR last with class ANY, TTL 0, owner = key name, request algorithm and original ID, time = server time, fudge 300. For match / bad-time outcomes: the helper's return value, RCODE and the tag and digest of the request-side MAC check (times at T0 +- 300 / 301). ReadTsigRr::try_from: FORMERR iff class != ANY or TTL != 0 (all values). check_time and check_mac_size over their whole domains.",
        note="Stubs: S1 (HashMap model), S5/S5a/S5b (recording MAC; Algorithm::name as static views proven equal; Algorithm::from_name as octet-wise case-insensitive compare - the real lazy_static lookup is not decided), S9 (TimeSigned::to_unix_time as shift/or, proven equal over 2^48), S11 (new_boxed_name initialised octet by octet). NOT decided: the MAC of signed responses through finish_with_mac (NOERROR and BADTIME cases; 57 min without result) - covered piecewise by C11's sign_response harnesses; key lookup in a non-empty key map (40 min); whole handle_message TSIG shapes. Counterexamples of stubbed harnesses cannot be replayed natively (kani::stub is not applied in playback): such a failure is reported as inconclusive (exit 2), not as VIOLATION.",
        ref="DESIGN.md A4.2, B-C10"),
    "C11": dict(
        text="Bounded, HMAC abstracted by a recording MAC (S5): for sign_request / sign_response / sign_subsequent with a symbolic 12-octet header (ARCOUNT >= 1), bodies of 0/5/9 symbolic octets, symbolic key, original ID, 48-bit time, fudge, error (incl. BADTIME with other data) and request/prior MACs of 0/20/32 octets: the octet stream fed to the MAC equals the harness's own RFC 8945 4.3 stream octet for octet (every covered message octet unchanged at a symbolic index, ARCOUNT-1, original ID), exactly one MAC computation, and the produced TSIG RDATA validates and carries the same fields; verify_request/response/subsequent return Ok exactly when the MAC size is in [max(10,out/2), out], the MAC is a prefix of the model MAC and |now - time| <= fudge, with error order FORMERR, BADSIG, BADTIME; check_time and check_mac_size over their whole domains (2^48 x 2^16 x 2^48; 2 x 2^16).",
        note="HMAC-SHA1/256 themselves are trusted (inline asm, not analysable); 'changing any covered octet makes verification fail' is decided as coverage (every covered octet reaches the MAC input unchanged). Bodies > 9 octets, keys other than 2 octets, more than one key are outside. Stubs S5, S5a, S9, S11.",
        ref="DESIGN.md A4.2, B-C11"),
    "C18": dict(
        text="Bounded: (ii) Rdata::validate accepts exactly what reference validators written from RFC 1035 3.3/3.4, 1034 3.6, 2782, 3596, 6891, 8945 accept, for EVERY class x type (2^32) and every RDATA of length 0..=8 (12 thorough), SOA 0..=25, TSIG 0..=21, fixed-size types 0..=17, all octets symbolic; (i) Rdata::read vs the reference on small messages with symbolic octets, symbolic cursor (0..=N+1) and ALL u16 RDLENGTH values for the non-decompressing types (N=8, N=18 for AAAA/TSIG) and, thorough, for NS/MD/MF/CNAME/MB/MG/MR/PTR on every 3-octet message: never panics, UnexpectedEom iff cursor+RDLENGTH > N, acceptance iff reference, result octets equal the reference's decompressed RDATA and validate; MX/SRV/CH-A/MINFO/SOA through label+pointer skeletons with exact and off-by-one RDLENGTH; RDLENGTH ending exactly where an embedded name starts gives an error, not a panic.",
        note="(iii) write->read round trip is NOT built (writer + compressor + reader on top of Name objects did not fit). Symbolic cursor/RDLENGTH for MX, CH A, MINFO, SRV, SOA readers only via concrete skeletons (symbolic RDLENGTH diverged: 25 min). Name/label length limits (255/63) not reached here (C14/C16). Stub S7.",
        ref="DESIGN.md A4.2, B-C18"),
    "C19": dict(
        text="Bounded: Rdata::equals(a, b) == an independent reference equality (both well formed for the type -> fixed fields octet-equal and embedded names equal ignoring ASCII case; otherwise octet equality) in both argument orders, plus symmetry, reflexivity and (triples) transitivity stated separately, for RDATA pairs of independent concrete lengths with all octets symbolic: NS lengths (3,3),(3,4) quick and the full grid {0,1,3,4,5}^2 thorough; MD/MF/CNAME/MB/MG/MR/PTR (3,3),(3,4); MX, CH A (5,5), MINFO (4,4), short/unequal lengths for MX/SRV/CH A/MINFO, skeleton pairs for SOA/MINFO/NS/SRV; every class x type (2^32) outside the table is octet equality; RdataSetOwned::from_iter/insert keep the first member of each equality class in insertion order (three IN A RDATA; two NS RDATA thorough).",
        note="Stub S10: <[u8]>::eq_ignore_ascii_case (std) replaced by a per-octet loop, checked against the real function on 3 and 18 octets. Fully symbolic SRV (9,9) and SOA (22,22) pairs and three NS RDATA through insert exceed 13 GB and are covered by skeleton pairs only; names longer than 5 octets skeleton-only; TYPE concrete in name-reaching harnesses.",
        ref="DESIGN.md A4.2, B-C19"),
    "C22": dict(
        text="Bounded, on hand-built catalog trees (struct literals of the private fields + the HashMap model's insert; real recursive functions): Catalog::lookup and the provided get return the longest-suffix / exact entry of a reference association list for every pool name (., a., b.a., x.a., c.b.a.) on a 5-node tree whose entries are all symbolic (absent / NotYetLoaded / FailedToLoad with a symbolic tag) plus a second class root (class separation); one remove_in_class step from that arbitrary tree (remove c.b.a. quick; x.a., b.a., the root, a cascading chain thorough): returned entry correct and every OTHER entry still found by lookup and get; the history insert a., insert b.a., remove b.a. through HashMapTreeCatalog::remove; SingleZoneCatalog lookup/get for any class, kind and tag.",
        note="Stub S1 (HashMap model), S10 model of eq_ignore_ascii_case, cbmc --max-field-sensitivity-array-size 1024. NOT covered (measured): node creation - HashMapTreeCatalog::insert / get_or_create_descendant on a missing label run out of 14-17 GB under the HashMap model in every variant, so real insert histories are not decided; iteration (iter: 25 min symex on a 3-node catalog); Entry::Loaded; trees deeper than 4 labels. The remove-step harnesses rely on an --unwindset for a mangled drop-glue loop name; if it stops matching they time out (inconclusive), never pass wrongly.",
        ref="DESIGN.md A4.2, B-C22"),
    "C06": dict(
        text="Bounded, one zone skeleton with symbolic contents (7-node hand-built HashMapTreeZone: apex, *.z. in {A, CNAME, TXT} or absent, d.z. in {NS cut, A, empty}, g.d.z., empty non-terminal e.z., f.e.z., *.e.z. or absent), symbolic search_below_cuts / unchecked flags and query type in {A, NS, CNAME, SOA, TXT}: lookup / lookup_addrs / lookup_all for query names at the cut, below the cut, outside the zone and the root (WrongZone), the apex, names that need wildcard synthesis at the apex and below an empty non-terminal, names with no wildcard: result kind, the right RRset (TTLs encode node and type), source of synthesis and referral child equal an RFC 1034 4.3.2 / RFC 4592 reference walk over the harness's own facts.",
        note="Stub S1, S10 model; cbmc --max-field-sensitivity-array-size 1024. Zones are built by hand (node creation through add is out of reach, see C22/C20); other zone shapes, *.z. with lookup_addrs/lookup_all (20.9 GB), names more than 2 labels below nodes are outside. HashMapTreeZone::lookup_addrs never returns Cname (a CNAME-only node yields Found{None,None}); callers treat both alike and the oracle accepts either.",
        ref="DESIGN.md A4.2, B-C06"),
    "C20": dict(
        text="Bounded, partial: RrsetList add/lookup/iter against a reference for three adds (types TXT,A,TXT quick; A,A,TXT and AAAA,TXT,A thorough) with TTL any u32 and RDATA any 2 octets: TtlMismatch iff an RRset of that type exists with another (RFC 2181-normalised) TTL, a rejected add changes nothing, each type yielded once, RDATA de-duplicated in insertion order; HashMapTreeZone::add rejections: owners outside the zone -> NotInZone, owners inside with a different class -> ClassMismatch, lookups unchanged afterwards; accepted adds at the apex (thorough).",
        note="NOT covered (measured): adds that create nodes (get_or_create_descendant under the HashMap model: out of 14 GB in every variant), empty non-terminals, iteration (iter_by_node / iter_by_rrset, soa()/ns() vs iteration: 25 min symex without finishing). The 'iterating a zone yields every node once' half of the property is therefore not decided.",
        ref="DESIGN.md A4.2, B-C20"),
    "C05": dict(
        text="Bounded, compositional (answer assembly GIVEN the outcomes of zone lookups, mock zone M1): the real handle_non_axfr_query / answer / answer_any / do_cname / follow_cname_1,2 / do_referral / do_additional_section_processing / add_additional_addresses / add_negative_caching_soa and the real Writer (with its compressor) on a hand-built Context (concrete request read by the real Reader, 64-octet response buffer) against a scripted mock zone whose outcome kinds are concrete per scenario and whose data are symbolic (RRset TTLs, A/AAAA/TXT/MX/SRV octets, SOA TTL and MINIMUM as full u32): RCODE, AA and the three sections (decoded by the independent decoder, compared as multisets, names decompressed case-insensitively) equal a reference written from RFC 1034 4.3.2, RFC 6604, RFC 2308 3, RFC 2181 for: Found (A, 2 RDATA, MX/NS/SRV with additional addresses), NoRecords / NxDomain with SOA TTL = min(SOA TTL, MINIMUM) for all u32 pairs, zones without SOA or with malformed SOA/MX/CNAME/NS RDATA (SERVFAIL), CNAME to Found / NxDomain / NoRecords / out of zone / referral, chains of 2, loops of 1 and 2 (SERVFAIL), referrals with in-bailiwick, sibling-cut and out-of-bailiwick name servers (search_below_cuts asserted by the mock), ANY with 0/1/2 RRsets.",
        note="What the real zone store returns for a given zone is C06's obligation; zone selection is C07's. Names have at most 3 one-octet labels; responses <= 64 octets. NOT covered (measured): CNAME chains longer than 2 links incl. the 8-link limit (35 min / 7 GB, Name == on heap names is a symbolic branch), ANY answered by a referral (1800 s / 9 GB), non-IN classes, mixed-case names. Stubs: scripted mock zone (asserts name and options of every lookup, in call order), N1 (Name::eq_or_subdomain_of as a wire-suffix model, proven equal on the pairs used by c05_subdomain_model), TSIG signing functions replaced by unreachable panics.",
        ref="DESIGN.md A4.2, B-C05"),
}

GENERIC = dict(
    text="Bounded model checking of the real code against an independent reference written in the harness; see evidence for the exact bounds of each harness.",
    note="Bounds and stubs are listed per harness in the evidence file.",
    ref="DESIGN.md section 3")

NA = {
    "C23": "whole-line / whole-file zone-file parsing is out of reach for bounded model checking here (measured): CBMC does not constant-fold the parser's io::Result<Option<u8>> reader results, so even a fully concrete record line makes it explore the entire parser on every path (1-octet input: out of memory at 6-10 GB; concrete 12-octet line '. 5 IN NS .': not finished after 670 unwindings; TTL/class order harnesses: out of memory at 9-10 GB). Only helper functions (escape sequences, generic RDATA hex digits) are decided, as part of C24's evidence.",
    "C25": "$INCLUDE semantics are decided by zone_file::fs::Parser opening real files (File::open, path joins): file-system FFI is an unsupported construct for Kani/CBMC and fs/mod.rs has no in-memory seam; solver-based checking cannot reach it.",
    "C28": "the quantifier is OS-thread schedules over a Mutex-guarded bucket; Kani/CBMC verify sequential Rust only and no solver engine here has a concurrency model for std::thread; the sequential bucket step is C26.",
    "C29": "thread-pool correctness is a property of Condvar/Mutex/thread::spawn interleavings with timeouts; no solver-based engine in this image executes real multi-threaded Rust symbolically.",
    "C30": "framing and pipelining live in blocking/Tokio socket loops (kernel sockets, timeouts, task scheduling): outside any encodable boundary; the per-message logic they call is C01-C04.",
    "C31": "reload is daemon-process behaviour (SIGHUP, fs::metadata, zone files, UDP) in the quandaryd binary (clap/toml/signal-hook); load_impl interleaves file-system calls with catalog edits and has no seam to stub.",
    "C32": "snapshot isolation under concurrent set_catalog/set_tsig_keys is a schedule property of RwLock<Arc<_>>; the concurrent claim cannot be encoded for CBMC (sequential only).",
}


def main():
    fams, allh = verif.load_registry()
    props = [json.loads(l)["id"] for l in open(os.path.join(VERIF, "properties.jsonl"))]
    pending = {}
    pf = os.path.join(VERIF, "lib", "pending.json")
    if os.path.exists(pf):
        pending = json.load(open(pf))
    checks = []
    na = []
    for p in props:
        if p in NA:
            na.append({"property_id": p, "reason": NA[p]})
            continue
        hs = verif.select(allh, p, "quick")
        if not hs or p in pending:
            na.append({"property_id": p, "reason": pending.get(p, "no solver check registered for this property yet (build in progress); see DESIGN.md")})
            continue
        c = CLAIMS.get(p, GENERIC)
        checks.append({
            "property_id": p,
            "quick_cmd": "./check %s --tier quick" % p,
            "thorough_cmd": "./check %s --tier thorough" % p,
            "evidence_file": "/verif/evidence/%s.json" % p,
            "replay_cmd_template": "./check %s --replay {path}" % p,
            "engine": "kani-cbmc",
            "level_claimed": {"category": "model_checking", "text": c["text"], "design_ref": c["ref"]},
            "level_note": c["note"],
            "technique": TECH_K,
        })
    m = {
        "version": 1,
        "setup_cmd": "true",
        "hooks": {
            "guard": "cfg(kani)",
            "enable": "cargo kani sets cfg(kani); harness modules from /verif/harness are attached to a scratch copy of /repo's working tree as #[cfg(kani)] child modules; nothing is committed to /repo",
            "baseline_off_cmd": "cd /repo && cargo test --workspace --no-fail-fast --offline",
            "source_commits": [],
            "add_only": True,
        },
        "engines": [
            {"name": "kani-cbmc", "path": "/verif/lib/verif.py", "serves_properties": [c["property_id"] for c in checks],
             "kind_free_text": "Kani 0.68 proof harnesses (/verif/harness/*.rs) over the real quandary source, decided by CBMC 6.11 + CaDiCaL; one cargo-kani process per harness; counterexamples replayed natively with cargo kani playback before a VIOLATION is reported"},
        ],
        "checks": checks,
        "not_applicable": na,
        "notes": "Exit codes of ./check: 0 = held on everything explored; 1 = VIOLATION (natively reproduced counterexample not listed in known_findings.json); 2 = inconclusive (timeout, out of memory, unwinding bound too small, unsatisfied reachability witness, harness does not compile against the edited tree). Fixed defects are listed in /verif/known_findings.json.",
    }
    with open(os.path.join(VERIF, "MANIFEST.json"), "w") as fh:
        json.dump(m, fh, indent=1)
    print("checks:", [c["property_id"] for c in checks])
    print("not applicable:", [n["property_id"] for n in na])


if __name__ == "__main__":
    main()
