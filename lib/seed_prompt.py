#!/usr/bin/env python3
"""Prints the prompt for a seeding sub-agent: property text + worktree only."""
import json, sys
pid, wt = sys.argv[1], sys.argv[2]
p = [json.loads(l) for l in open('/verif/properties.jsonl') if json.loads(l)['id'] == pid][0]
print(f"""You are given a git worktree of the Rust crate matttpt/quandary (an authoritative DNS server library + daemon) at {wt}. Work ONLY inside {wt} (do not read or touch /repo or /verif or any other directory; do not look for verification tooling). No network; `cargo test --offline` works (about 280 unit tests, ~1 minute to build).

Here is a semantic property the code is supposed to satisfy:

  Title: {p['title']}
  Statement: {p['statement']}
  Quantified over: {p['quantifier']['text']}

YOUR TASK: produce ONE realistic change (a plausible bug: a refactoring slip, an off-by-one, a wrong operator, a dropped check, two cooperating sites that each look fine alone ...) to the crate's source under {wt}/src that BREAKS this property while the crate still compiles and the ENTIRE existing test suite still passes (`cd {wt} && cargo test --offline` — all tests green). The change must need something specific to manifest: an unusual input, a particular value at a boundary, a multi-step sequence, a rare combination — NOT something ordinary use would expose at once (e.g. not "every query fails"). Keep it small (a few lines), and keep it inside the library (src/, not tests).

Also write a DEMONSTRATION: a Rust integration test file {wt}/tests/seed_demo.rs (use only the crate's public API: `quandary::...`) — or, if the broken behaviour is only observable through crate-private items, a `#[cfg(test)] mod seed_demo {{ ... }}` appended to the relevant source file — containing a test `seed_demo` that FAILS with your change and PASSES without it. Verify both directions yourself: with the change applied run the demo (must fail) and the whole existing suite (must pass, apart from your demo); then `git stash` the source change (keep the demo), run the demo again (must pass), and restore the change.

Deliver, in {wt}:
  - {wt}/seed/patch.diff : `git diff` of the source change ONLY (not the demo),
  - {wt}/seed/demo.rs : a copy of the demonstration test, with a header comment saying where it must be placed (tests/seed_demo.rs or appended to which file) and how to run it,
  - {wt}/seed/meta.json : {{"property": "{pid}", "what": "<one sentence: what the change does>", "needs": "<what specific input/sequence it needs to manifest>", "commands": ["<what you ran>"], "demo_fails_with_change": true, "demo_passes_without": true, "suite_passes_with_change": true}}
Leave the worktree with the change applied and the demo in place. Your final message: a 5-line summary (what, where, needs, how verified).""")
