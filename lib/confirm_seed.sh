#!/bin/bash
# confirm_seed.sh <worktree> <seed-id>: confirm a seeded change ourselves
# (suite passes with change, demo fails with change, demo passes without), then
# store it under /verif/seeded/<seed-id>/.
set -u
wt=$1; id=$2
cd "$wt" || exit 2
out=/verif/seeded/$id; mkdir -p $out
git diff -- src > /tmp/confirm-$id.diff
if ! diff -q <(grep -v '^index ' /tmp/confirm-$id.diff) <(grep -v '^index ' seed/patch.diff) >/dev/null; then echo "NOTE: worktree diff differs from seed/patch.diff (using worktree diff)"; fi
echo "== with change: full suite"
cargo test --offline -j 4 --no-fail-fast > /tmp/confirm-$id.with.log 2>&1
grep "test result\|seed_demo" /tmp/confirm-$id.with.log | head -12
echo "== without change: demo"
git apply -R /tmp/confirm-$id.diff || exit 2
cargo test --offline -j 4 seed_demo > /tmp/confirm-$id.without.log 2>&1
grep "test result\|seed_demo" /tmp/confirm-$id.without.log | head -8
git apply /tmp/confirm-$id.diff
cp /tmp/confirm-$id.diff $out/patch.diff
cp seed/demo.rs $out/demo.rs 2>/dev/null || cp tests/seed_demo.rs $out/demo.rs
cp seed/meta.json $out/meta.json
