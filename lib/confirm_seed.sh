#!/bin/bash
# confirm_seed.sh <worktree> <seed-id>: confirm a seeded change ourselves
# (suite passes with change, demo fails with change, demo passes without), then
# store it under /verif/seeded/<seed-id>/.  seed/patch.diff (source change only)
# is authoritative; the demo (tests/seed_demo.rs or an appended #[cfg(test)] mod)
# stays in place while the patch is reverted.
set -u
wt=$1; id=$2
cd "$wt" || exit 2
out=/verif/seeded/$id; mkdir -p $out
echo "== with change: full suite"
cargo test --offline -j 3 --no-fail-fast > /tmp/confirm-$id.with.log 2>&1
grep "test result\|seed_demo.*\(FAILED\|ok\)" /tmp/confirm-$id.with.log | head -12
echo "== without change: demo"
git apply -R seed/patch.diff || exit 2
cargo test --offline -j 3 seed_demo > /tmp/confirm-$id.without.log 2>&1
grep "test result\|seed_demo.*\(FAILED\|ok\)" /tmp/confirm-$id.without.log | grep -v "0 passed; 0 failed" | head -8
git apply seed/patch.diff
cp seed/patch.diff $out/patch.diff
cp seed/demo.rs $out/demo.rs
cp seed/meta.json $out/meta.json
