#!/usr/bin/env python3
"""Orchestration for solver-based checks of matttpt/quandary (engine K = Kani/CBMC).

check <ID> [--tier quick|thorough]        decide property <ID> on /repo's working tree
check <ID> --replay <path>                re-run a stored counterexample natively
check --list                              list harnesses

Everything is rebuilt from $VERIF_REPO (default /repo) on every run: the
working tree is copied to a scratch directory, the harness modules of
/verif/harness are attached as #[cfg(kani)] child modules of the modules they
verify, and every harness is decided by `cargo kani` (CBMC + CaDiCaL) in its
own process.  stdlib only.
"""
import hashlib
import json
import os
import re
import shutil
import signal
import subprocess
import sys
import threading
import time

VERIF = os.path.dirname(os.path.dirname(os.path.abspath(__file__)))
REPO = os.environ.get("VERIF_REPO", "/repo")
SCRATCH_BASE = os.environ.get("VERIF_SCRATCH", "/var/tmp")
HARNESS_DIR = os.path.join(VERIF, "harness")
MEM_BUDGET_GB = float(os.environ.get("VERIF_MEM_GB", "44"))
MAX_JOBS = int(os.environ.get("VERIF_JOBS", "14"))

ENV = dict(os.environ)
ENV["CARGO_NET_OFFLINE"] = "true"
ENV.pop("RUSTUP_TOOLCHAIN", None)
ENV.pop("RUSTFLAGS", None)
ENV["CARGO_TERM_COLOR"] = "never"


def log(*a):
    print(*a, file=sys.stderr, flush=True)


# --------------------------------------------------------------------------
# harness registry: parsed from annotations in /verif/harness/*.rs
# --------------------------------------------------------------------------
#
# file header:   // @host src/name/wire.rs
#                // @transform hashmap_model        (optional, repeatable)
# per harness:   // @harness name=c14_x props=C14,C01 tier=quick mem=4 t=300 \
#                //   fn="Name::try_from_compressed" bound="..." sym="..." stubs="S4"
# the annotation may span several comment lines; it ends at the first line
# that is not a `//` comment.  `name=` is optional when the next `fn` item
# names the harness.

ANN_KV = re.compile(r'(\w+)=("([^"]*)"|\S+)')


class Harness:
    def __init__(self, family, host, kv):
        self.family = family
        self.host = host
        self.name = kv["name"]
        self.props = kv.get("props", "").split(",")
        self.panics = kv.get("panics", kv.get("props", "")).split(",")
        self.tier = kv.get("tier", "quick")
        # optional: quick=C03,C07 -> quick tier only for these properties,
        # thorough tier for the others listed in props/panics
        self.quick = kv.get("quick", "").split(",") if kv.get("quick") else None
        self.mem = float(kv.get("mem", "4"))
        self.timeout = int(kv.get("t", "600"))
        self.fn = kv.get("fn", "")
        self.bound = kv.get("bound", "")
        self.sym = kv.get("sym", "")
        self.stubs = kv.get("stubs", "")
        self.cbmc = kv.get("cbmc", "")
        self.kani = kv.get("kani", "")
        self.expect = kv.get("expect", "pass")  # pass | fail (vacuity twins)
        # replay=solver: the harness cannot run natively (e.g. it hands the code a Vec laid
        # over a stack array, which std's debug precondition checks abort on); its
        # counterexamples are reported from the solver's concrete values and marked
        self.replay = kv.get("replay", "native")
        self.fq = fq_module(host) + "kani_" + family + "::" + self.name

    def descr(self):
        return {
            "harness": self.fq,
            "functions_encoded": self.fn,
            "bound": self.bound,
            "symbolic": self.sym,
            "stubs": self.stubs,
        }


def fq_module(host):
    p = host[len("src/"):]
    if p.endswith(".rs"):
        p = p[:-3]
    parts = p.split("/")
    if parts[-1] in ("mod", "lib"):
        parts = parts[:-1]
    return "".join(x + "::" for x in parts)


def parse_family(path):
    family = os.path.basename(path)[:-3]
    host = None
    transforms = []
    harnesses = []
    lines = open(path).read().split("\n")
    i = 0
    while i < len(lines):
        ln = lines[i].strip()
        m = re.match(r"//\s*@host\s+(\S+)", ln)
        if m:
            host = m.group(1)
        m = re.match(r"//\s*@transform\s+(\S+)", ln)
        if m:
            transforms.append(m.group(1))
        if re.match(r"//\s*@harness\b", ln):
            text = re.sub(r"^//\s*@harness", "", ln)
            j = i + 1
            while j < len(lines) and lines[j].strip().startswith("//") and "@harness" not in lines[j]:
                text += " " + lines[j].strip()[2:]
                j += 1
            kv = {}
            for mm in ANN_KV.finditer(text):
                kv[mm.group(1)] = mm.group(3) if mm.group(3) is not None else mm.group(2)
            if "name" not in kv:
                k = j
                while k < len(lines) and k < j + 12:
                    fm = re.match(r"\s*(?:pub\s+)?fn\s+(\w+)\s*\(", lines[k])
                    if fm:
                        kv["name"] = fm.group(1)
                        break
                    k += 1
            if "name" not in kv:
                raise SystemExit("annotation without harness name in %s:%d" % (path, i + 1))
            harnesses.append((kv, i + 1))
            i = j
            continue
        i += 1
    return family, host, transforms, harnesses


def load_registry():
    fams = {}
    allh = []
    for f in sorted(os.listdir(HARNESS_DIR)):
        if not f.endswith(".rs"):
            continue
        family, host, transforms, hs = parse_family(os.path.join(HARNESS_DIR, f))
        fams[family] = {"host": host, "transforms": transforms, "file": f}
        if host is None:
            if hs:
                raise SystemExit("harness file %s has harnesses but no @host" % f)
            continue
        for kv, _ in hs:
            allh.append(Harness(family, host, kv))
    names = [h.name for h in allh]
    dup = set(n for n in names if names.count(n) > 1)
    if dup:
        raise SystemExit("duplicate harness names: %s" % sorted(dup))
    return fams, allh


def integration_state():
    """Families accepted by the integrator, and properties still pending.
    For a property that is claimed in MANIFEST.json (not pending) only harnesses
    of integrated families are selected, so that a family still under
    construction cannot make a registered check inconclusive."""
    fams, pend = None, {}
    f = os.path.join(VERIF, "lib", "integrated_families.txt")
    if os.path.exists(f):
        fams = set(x.strip() for x in open(f) if x.strip() and not x.startswith("#"))
    pf = os.path.join(VERIF, "lib", "pending.json")
    if os.path.exists(pf):
        pend = json.load(open(pf))
    return fams, pend


def select(allh, prop, tier):
    out = []
    integrated, pending = integration_state()
    for h in allh:
        if integrated is not None and prop not in pending and h.family not in integrated \
                and not os.environ.get("VERIF_ALL_FAMILIES"):
            continue
        if prop not in h.props and prop not in h.panics:
            continue
        if tier == "quick":
            if h.quick is not None:
                if prop not in h.quick:
                    continue
            elif h.tier != "quick":
                continue
            elif prop not in h.props:
                # blamed for panics only (panics=): thorough tier for this property
                continue
        out.append(h)
    return out


# --------------------------------------------------------------------------
# overlay: scratch copy of the working tree + attached harness modules
# --------------------------------------------------------------------------

class Inconclusive(Exception):
    pass


def tree_hash(root):
    h = hashlib.sha256()
    for d, _, fs in sorted(os.walk(os.path.join(root, "src"))):
        for f in sorted(fs):
            p = os.path.join(d, f)
            h.update(p.encode())
            h.update(open(p, "rb").read())
    return h.hexdigest()[:16]


TRANSFORMS = {}


def transform(name):
    def deco(f):
        TRANSFORMS[name] = f
        return f
    return deco


def sub_exact(path, pattern, repl, count_expected=None, flags=0):
    s = open(path).read()
    s2, n = re.subn(pattern, repl, s, flags=flags)
    if n == 0 or (count_expected is not None and n != count_expected):
        raise Inconclusive("overlay transform: pattern %r matched %d times in %s (expected %s)"
                           % (pattern, n, path, count_expected if count_expected is not None else ">=1"))
    open(path, "w").write(s2)
    return n


@transform("hashmap_model")
def t_hashmap_model(scratch):
    """Stub S1: std HashMap/HashSet -> association-list model, cfg(kani) only."""
    n = 0
    for d, _, fs in os.walk(os.path.join(scratch, "src")):
        for f in fs:
            if not f.endswith(".rs"):
                continue
            p = os.path.join(d, f)
            s = open(p).read()
            if "std::collections" not in s:
                continue

            def repl(m):
                line = m.group(0)
                if "RandomState" in line or "DefaultHasher" in line:
                    return line  # hashing primitives stay real (rrl.rs)
                if not re.search(r"HashMap|HashSet|hash_map", line) or re.search(r"VecDeque|BTree|BinaryHeap|LinkedList", line):
                    return line  # other collections stay real
                model = line.replace("std::collections", "crate::kani_model")
                return "#[cfg(not(kani))]\n" + line + "\n#[cfg(kani)]\n" + model
            s2, k = re.subn(r"^use std::collections::[^;]*;", repl, s, flags=re.M)
            if k:
                open(p, "w").write(s2)
                n += k
    if n == 0:
        raise Inconclusive("hashmap_model: no `use std::collections` line found")
    lib = os.path.join(scratch, "src/lib.rs")
    with open(lib, "a") as fh:
        fh.write('\n#[cfg(kani)] #[path = "%s/kani_harness/model_collections.rs"] pub(crate) mod kani_model;\n' % scratch)
    shutil.copy(os.path.join(HARNESS_DIR, "model_collections.rs"),
                os.path.join(scratch, "kani_harness/model_collections.rs"))


def make_overlay(fams, families, inject_tests=None, tag=""):
    """Copy the working tree and attach harness families. Returns scratch dir."""
    scratch = os.path.join(SCRATCH_BASE, "quandary-verif-%d-%s%s" % (os.getpid(), int(time.time()) % 100000, tag))
    if os.path.exists(scratch):
        shutil.rmtree(scratch)
    os.makedirs(scratch)
    for item in ("src", "Cargo.toml", "Cargo.lock"):
        src = os.path.join(REPO, item)
        if not os.path.exists(src):
            raise Inconclusive("missing %s" % src)
        subprocess.check_call(["rsync", "-a", src, scratch + "/"])
    os.makedirs(os.path.join(scratch, "kani_harness"))
    # shared helpers (reference decoders etc.), always attached at the crate root
    common = os.path.join(HARNESS_DIR, "common.rs")
    if os.path.exists(common):
        shutil.copy(common, os.path.join(scratch, "kani_harness/common.rs"))
        with open(os.path.join(scratch, "src/lib.rs"), "a") as fh:
            fh.write('\n#[cfg(kani)] #[path = "%s/kani_harness/common.rs"] #[allow(dead_code, unused)] pub(crate) mod kani_common;\n' % scratch)
    done_t = set()
    for fam in families:
        info = fams[fam]
        dst = os.path.join(scratch, "kani_harness", info["file"])
        shutil.copy(os.path.join(HARNESS_DIR, info["file"]), dst)
        if inject_tests and fam in inject_tests:
            with open(dst, "a") as fh:
                fh.write("\n" + inject_tests[fam] + "\n")
        host = os.path.join(scratch, info["host"])
        if not os.path.exists(host):
            raise Inconclusive("host module %s does not exist in the working tree" % info["host"])
        with open(host, "a") as fh:
            fh.write('\n#[cfg(kani)] #[path = "%s"] #[allow(dead_code, unused)] mod kani_%s;\n' % (dst, fam))
        for t in info["transforms"]:
            if t not in done_t:
                TRANSFORMS[t](scratch)
                done_t.add(t)
    return scratch


# --------------------------------------------------------------------------
# running one harness
# --------------------------------------------------------------------------

CHECK_RE = re.compile(
    r"Check (\d+): ([^\n]+)\n\s+- Status: (\w+)\n\s+- Description: \"(.*)\"\n\s+- Location: (.*)")


def run_proc(cmd, cwd, timeout, mem_gb, logpath):
    """Run under ulimit -v and /usr/bin/time -v; kill the whole group on timeout."""
    # `mem` in the annotation is the expected peak RSS (used for scheduling);
    # the address-space cap is a guard against runaway solver memory
    kb = int((mem_gb * 2 + 6) * 1024 * 1024)
    sh = "ulimit -v %d; exec /usr/bin/time -v %s" % (kb, " ".join(shquote(c) for c in cmd))
    t0 = time.time()
    with open(logpath, "w") as lf:
        p = subprocess.Popen(["bash", "-c", sh], cwd=cwd, env=ENV, stdout=lf, stderr=subprocess.STDOUT,
                             preexec_fn=os.setsid)
        timed_out = False
        try:
            p.wait(timeout=timeout)
        except subprocess.TimeoutExpired:
            timed_out = True
            try:
                os.killpg(p.pid, signal.SIGKILL)
            except ProcessLookupError:
                pass
            p.wait()
    return p.returncode, timed_out, time.time() - t0


def shquote(s):
    if re.match(r"^[\w@%+=:,./-]+$", s):
        return s
    return "'" + s.replace("'", "'\"'\"'") + "'"


def kani_cmd(h, scratch, tdir, playback=False):
    cmd = ["cargo", "kani", "--lib", "--no-default-features", "-Z", "unstable-options"]
    if h.stubs:
        cmd += ["-Z", "stubbing"]
    if h.kani:
        cmd += h.kani.split()
    cmd += ["--harness", h.fq, "--exact", "--target-dir", tdir, "--output-format", "regular"]
    if playback:
        cmd += ["-Z", "concrete-playback", "--concrete-playback=print"]
        if "--no-assertion-reach-checks" not in cmd:
            # every reachable assertion's reachability check comes back with a full JSON
            # trace in playback mode (kani-driver ran out of memory at 28 GB on one harness)
            cmd += ["--no-assertion-reach-checks"]
    else:
        cmd += ["--harness-timeout", "%ds" % h.timeout]
    if h.cbmc:
        cmd += ["--cbmc-args"] + h.cbmc.split()
    return cmd


def parse_kani_log(text):
    res = {"checks": [], "verdict": None, "time": None, "rss_kb": None, "timed_out_kani": False}
    for m in CHECK_RE.finditer(text):
        res["checks"].append({"id": m.group(2), "status": m.group(3),
                              "desc": m.group(4).strip('"'), "loc": m.group(5).strip()})
    m = re.search(r"VERIFICATION:- (\w+)", text)
    if m:
        res["verdict"] = m.group(1)
    m = re.search(r"Verification Time: ([\d.]+)s", text)
    if m:
        res["time"] = float(m.group(1))
    m = re.search(r"Maximum resident set size \(kbytes\): (\d+)", text)
    if m:
        res["rss_kb"] = int(m.group(1))
    if re.search(r"timed out|Timeout", text):
        res["timed_out_kani"] = True
    m = re.search(r"Stub: .*", text)
    res["stub_lines"] = re.findall(r"- Stub: (.*)", text)
    return res


def build_template(scratch, logdir):
    """Compile the dependencies once; every harness run starts from a copy of this target dir."""
    tdir = os.path.join(scratch, "t", "_template")
    cmd = ["cargo", "kani", "--lib", "--no-default-features", "-Z", "unstable-options", "--only-codegen",
           "--harness", "no_such_harness_template_build", "--target-dir", tdir]
    logpath = os.path.join(logdir, "_template.log")
    rc, timed_out, wall = run_proc(cmd, scratch, 900, 8, logpath)
    text = open(logpath, errors="replace").read()
    if "error[" in text or "could not compile" in text:
        raise Inconclusive("working tree + harness modules do not compile under cargo kani:\n" + first_errors(text))


def run_harness(h, scratch, logdir, playback=False):
    tdir = os.path.join(scratch, "t", h.name + ("_pb" if playback else ""))
    logpath = os.path.join(logdir, h.name + (".playback" if playback else "") + ".log")
    cmd = kani_cmd(h, scratch, tdir, playback)
    template = os.path.join(scratch, "t", "_template")
    if os.path.isdir(template) and not os.path.exists(tdir):
        subprocess.call(["cp", "-a", template, tdir])
    # trace generation for concrete playback needs noticeably more memory
    rc, timed_out, wall = run_proc(cmd, scratch, (h.timeout * 3 + 600) if playback else (h.timeout + 120),
                                   h.mem * 2 + 4 if playback else h.mem, logpath)
    text = open(logpath, errors="replace").read()
    shutil.rmtree(tdir, ignore_errors=True)
    res = parse_kani_log(text)
    res.update({"harness": h, "rc": rc, "timed_out": timed_out, "wall": wall, "log": logpath, "text": text})
    return res


# --------------------------------------------------------------------------
# classification
# --------------------------------------------------------------------------

# stubs under which a counterexample cannot be replayed natively (see do_check)
NO_NATIVE_REPLAY_STUBS = ("S5",)

TAG_RE = re.compile(r"\[(C\d+(?:,C\d+)*)\]")
UNWIND_RE = re.compile(r"unwinding assertion", re.I)


def check_props(h, chk):
    """Which properties a failed check speaks about."""
    m = TAG_RE.search(chk["desc"])
    if m:
        return m.group(1).split(",")
    return list(h.panics)


def is_harness_loc(chk):
    return "kani_harness/" in chk["loc"]


def classify(res, prop):
    """-> (status, details). status in pass | fail | inconclusive | other_fail"""
    h = res["harness"]
    if res["timed_out"] or (res["timed_out_kani"] and res["verdict"] is None) or "CBMC timed out" in res["text"]:
        return "inconclusive", "timeout after %ds" % h.timeout
    if res["verdict"] is None:
        tail = res["text"][-1500:]
        if "error[" in res["text"] or "error: could not compile" in res["text"]:
            return "inconclusive", "harness does not compile against the working tree:\n" + first_errors(res["text"])
        if "memory" in tail.lower() or "ran out of memory" in res["text"] or "bad_alloc" in tail or res["rc"] in (-9, 137, 134):
            return "inconclusive", "out of memory / killed (rc=%s)" % res["rc"]
        return "inconclusive", "no verdict (rc=%s): %s" % (res["rc"], tail[-400:])
    if "ran out of memory" in res["text"] or any(c["status"] == "ERROR" for c in res["checks"]):
        return "inconclusive", "solver ran out of memory (address-space cap)"
    failed = [c for c in res["checks"] if c["status"] in ("FAILURE", "UNDETERMINED")]
    covers = [c for c in res["checks"] if ".cover." in c["id"]]
    bad_cover = [c for c in covers if c["status"] != "SATISFIED"]
    unwind = [c for c in failed if UNWIND_RE.search(c["desc"]) or ".unwind." in c["id"]]
    unsupported = [c for c in failed if "unsupported_construct" in c["id"]]
    real = [c for c in failed if c not in unwind and c not in unsupported and c["status"] == "FAILURE"]
    undet = [c for c in failed if c["status"] == "UNDETERMINED" and c not in unwind]
    if h.expect == "fail":
        # vacuity twin: the final assert(false) must be reachable and violated
        if real:
            return "pass", "reachability witness violated as required"
        return "inconclusive", "reachability twin did not fail: harness may be vacuous"
    mine = [c for c in real if prop in check_props(h, c)]
    others = [c for c in real if prop not in check_props(h, c)]
    if mine:
        return "fail", mine
    if unwind:
        return "inconclusive", "unwinding assertion failed (bound too small): " + unwind[0]["loc"]
    if unsupported:
        return "inconclusive", "unsupported construct reachable: " + unsupported[0]["desc"]
    if res["verdict"] == "SUCCESSFUL":
        if bad_cover:
            return "inconclusive", "cover witness not satisfied: " + "; ".join(c["desc"] for c in bad_cover)
        return "pass", ""
    if others:
        # failures attributed to other properties only; this property's
        # assertions all succeeded on the paths that reach them
        if bad_cover:
            return "inconclusive", "cover witness not satisfied: " + "; ".join(c["desc"] for c in bad_cover)
        return "pass", "failures attributed to other properties: " + "; ".join(
            sorted(set("%s @ %s" % (c["desc"], short_loc(c["loc"])) for c in others)))
    if undet:
        return "inconclusive", "undetermined checks: " + undet[0]["desc"]
    return "inconclusive", "verdict %s without attributable failed check" % res["verdict"]


def first_errors(text):
    out = []
    for m in re.finditer(r"^error(\[E\d+\])?:.*(\n\s+-->.*)?", text, flags=re.M):
        out.append(m.group(0))
        if len(out) >= 6:
            break
    return "\n".join(out)


def short_loc(loc):
    loc = re.sub(r".*/kani_harness/", "harness/", loc)
    loc = re.sub(r".*rustlib/src/rust/library/", "std:", loc)
    return loc


# --------------------------------------------------------------------------
# replay of counterexamples
# --------------------------------------------------------------------------

PB_RE = re.compile(r"Concrete playback unit test for `([^`]+)`:\n```\n(.*?)\n```", re.S)


def extract_playback_tests(text):
    tests = []
    for m in PB_RE.finditer(text):
        body = m.group(2)
        cm = re.search(r"/// Check for `(\w+)`: \"+(.*?)\"+\n", body)
        kind = cm.group(1) if cm else "?"
        desc = cm.group(2) if cm else "?"
        nm = re.search(r"fn (kani_concrete_playback_\w+)\(", body)
        tests.append({"kind": kind, "desc": desc, "name": nm.group(1) if nm else None, "code": body})
    return tests


def run_playback_tests(fams, h, tests, logdir, label):
    """Inject tests into the harness family, run natively. -> {testname: (reproduced, message)}"""
    code = "\n".join(t["code"] for t in tests)
    scratch = make_overlay(fams, [h.family], inject_tests={h.family: code}, tag="-pb")
    try:
        tdir = os.path.join(scratch, "t", "playback")
        logpath = os.path.join(logdir, "%s.%s.native.log" % (h.name, label))
        cmd = ["cargo", "kani", "playback", "-Z", "concrete-playback", "--lib", "--no-default-features",
               "--", "kani_concrete_playback", "--test-threads", "4"]
        env_t = dict(ENV)
        env_t["CARGO_TARGET_DIR"] = tdir
        env_t["RUST_BACKTRACE"] = "0"
        with open(logpath, "w") as lf:
            p = subprocess.Popen(cmd, cwd=scratch, env=env_t, stdout=lf, stderr=subprocess.STDOUT,
                                 preexec_fn=os.setsid)
            try:
                p.wait(timeout=900)
            except subprocess.TimeoutExpired:
                os.killpg(p.pid, signal.SIGKILL)
                p.wait()
        text = open(logpath, errors="replace").read()
        out = {}
        if "could not compile" in text or re.search(r"^error(\[E\d+\])?:", text, flags=re.M):
            log("native playback build FAILED (see %s):\n%s" % (logpath, first_errors(text)))
        for t in tests:
            m = re.search(r"test \S*%s ... (\w+)" % re.escape(t["name"]), text)
            status = m.group(1) if m else "missing"
            pm = re.search(r"---- \S*%s stdout ----\n(.*?)(?=\n----|\nfailures:)" % re.escape(t["name"]), text, re.S)
            msg = pm.group(1).strip() if pm else ""
            msg = re.sub(r"\nnote: run with.*", "", msg, flags=re.S)
            out[t["name"]] = (status == "FAILED", status, msg[-600:])
        return out, logpath
    finally:
        shutil.rmtree(scratch, ignore_errors=True)


# --------------------------------------------------------------------------
# known findings
# --------------------------------------------------------------------------

def load_known():
    p = os.path.join(VERIF, "known_findings.json")
    if not os.path.exists(p):
        return []
    return json.load(open(p)).get("findings", [])


def match_known(known, prop, h, chk):
    for k in known:
        if k.get("status") != "known" or k.get("property") != prop:
            continue
        if not re.search(k.get("harness_re", ".*"), h.name):
            continue
        if not re.search(k.get("check_re", ".*"), chk["desc"]):
            continue
        if not re.search(k.get("site_re", ".*"), chk["loc"]):
            continue
        return k
    return None


# --------------------------------------------------------------------------
# scheduler
# --------------------------------------------------------------------------

def run_all(hs, scratch, logdir, seed, playback=False):
    """Run harnesses in parallel under a memory budget. Big ones first."""
    order = sorted(hs, key=lambda h: (-h.mem * h.timeout, h.name))
    if seed:
        # VERIF_SEED only permutes scheduling among equals
        import random
        rnd = random.Random(seed)
        order = sorted(order, key=lambda h: (-h.mem * h.timeout, rnd.random()))
    results = {}
    lock = threading.Condition()
    state = {"mem": 0.0, "n": 0}
    pending = list(order)

    def worker(h):
        try:
            r = run_harness(h, scratch, logdir, playback=playback)
        except Exception as e:  # noqa
            r = {"harness": h, "verdict": None, "checks": [], "rc": -1, "timed_out": False,
                 "timed_out_kani": False, "wall": 0.0, "log": "", "text": "runner exception: %r" % (e,),
                 "time": None, "rss_kb": None, "stub_lines": []}
        with lock:
            results[h.name] = r
            state["mem"] -= h.mem
            state["n"] -= 1
            lock.notify_all()
        log("  [%s] %-44s %-12s %6.1fs  rss=%s" % (
            time.strftime("%H:%M:%S"), h.name, r["verdict"] or ("TIMEOUT" if r["timed_out"] else "NO-VERDICT"),
            r["wall"], ("%.1fG" % (r["rss_kb"] / 1048576.0)) if r.get("rss_kb") else "?"))

    threads = []
    with lock:
        while pending:
            started = False
            for h in list(pending):
                if state["n"] < MAX_JOBS and (state["mem"] + h.mem <= MEM_BUDGET_GB or state["n"] == 0):
                    pending.remove(h)
                    state["mem"] += h.mem
                    state["n"] += 1
                    t = threading.Thread(target=worker, args=(h,))
                    t.start()
                    threads.append(t)
                    started = True
            if pending and not started:
                lock.wait()
            elif pending:
                continue
    for t in threads:
        t.join()
    return results


# --------------------------------------------------------------------------
# main check
# --------------------------------------------------------------------------

def write_evidence(prop, tier, seed, wall, results, statuses, violations, known_hits, extra):
    hs = [r["harness"] for r in results.values()]
    total_checks = sum(len(r["checks"]) for r in results.values())
    succ = sum(1 for r in results.values() for c in r["checks"] if c["status"] in ("SUCCESS", "SATISFIED"))
    covers = sum(1 for r in results.values() for c in r["checks"] if ".cover." in c["id"])
    covers_sat = sum(1 for r in results.values() for c in r["checks"]
                     if ".cover." in c["id"] and c["status"] == "SATISFIED")
    passed = [n for n, s in statuses.items() if s[0] == "pass"]
    nontrivial = [n for n in passed
                  if any(".cover." in c["id"] and c["status"] == "SATISFIED" for c in results[n]["checks"])
                  or results[n]["harness"].expect == "fail"]
    samples = []
    for n, r in sorted(results.items()):
        h = r["harness"]
        d = h.descr()
        d.update({"status": statuses[n][0], "checks": len(r["checks"]),
                  "solver_wall_s": r.get("time"), "wall_s": round(r["wall"], 1),
                  "peak_rss_mb": int(r["rss_kb"] / 1024) if r.get("rss_kb") else None,
                  "cover_witnesses": [c["desc"] + ": " + c["status"] for c in r["checks"] if ".cover." in c["id"]]})
        if statuses[n][0] != "pass":
            d["detail"] = statuses[n][1] if isinstance(statuses[n][1], str) else [
                c["desc"] + " @ " + short_loc(c["loc"]) for c in statuses[n][1]]
        elif statuses[n][1]:
            d["note"] = statuses[n][1]
        samples.append(d)
    stubs = sorted(set(s for h in hs for s in h.stubs.split(",") if s))
    ev = {
        "property_id": prop,
        "tier": tier,
        "seed": seed,
        "level": "model_checking",
        "wall_s": round(wall, 1),
        "violations": violations,
        "coverage": {
            "evaluations": len(results),
            "distinct_nontrivial": len(nontrivial),
            "rule": "one evaluation = one bounded-model-checking query (Kani 0.68 / CBMC 6.11 / CaDiCaL) over the "
                    "real quandary code compiled from the current working tree, deciding every listed assertion and "
                    "every panic/overflow/bounds check for ALL values of the symbolic inputs inside the stated bound, "
                    "with unwinding assertions on; a query counts as non-trivial when it passed and at least one "
                    "kani::cover! reachability witness in it was SATISFIED (or it is a must-fail vacuity twin that failed)",
            "obligations": total_checks,
            "discharged": succ,
            "cover_witnesses": covers,
            "cover_witnesses_satisfied": covers_sat,
            "exhaustive": False,
            "solver_time_s": round(sum((r.get("time") or 0) for r in results.values()), 1),
            "peak_rss_mb": max([int(r["rss_kb"] / 1024) for r in results.values() if r.get("rss_kb")] or [0]),
            "functions_encoded": sorted(set(f.strip() for h in hs for f in h.fn.split(",") if f.strip())),
            "known_findings_reported": known_hits,
            "samples": samples,
        },
        "assumptions": [
            "bounded: each harness states its bound (buffer lengths, unwind depth, operation counts); nothing is claimed outside it",
            "trusted: rustc MIR -> Kani goto translation, CBMC 6.11, CaDiCaL, Kani's models of alloc and std intrinsics",
            "dev-profile semantics (overflow checks on), as compiled by cargo kani --lib --no-default-features",
        ] + (["stubs in force: " + ", ".join(stubs)] if stubs else []) + extra.get("assumptions", []),
    }
    ev["coverage"].update(extra.get("coverage", {}))
    evdir = os.environ.get("VERIF_EVIDENCE_DIR", os.path.join(VERIF, "evidence"))
    os.makedirs(evdir, exist_ok=True)
    with open(os.path.join(evdir, prop + ".json"), "w") as fh:
        json.dump(ev, fh, indent=1)


def do_check(prop, tier, extra_engine=None):
    t0 = time.time()
    seed = int(os.environ.get("VERIF_SEED", "0") or 0)
    fams, allh = load_registry()
    hs = select(allh, prop, tier)
    only = os.environ.get("VERIF_ONLY")
    if only:
        hs = [h for h in hs if re.search(only, h.name)]
    if not hs and extra_engine is None:
        log("no harnesses registered for %s" % prop)
        return 2
    known = load_known()
    logdir = os.path.join(SCRATCH_BASE, "quandary-verif-logs", "%s-%s-%d" % (prop, tier, os.getpid()))
    os.makedirs(logdir, exist_ok=True)
    families = sorted(set(h.family for h in hs))
    rc = 0
    inconclusive = []
    violations = 0
    known_hits = []
    results, statuses = {}, {}
    scratch = None
    try:
        try:
            scratch = make_overlay(fams, families)
        except Inconclusive as e:
            print("INCONCLUSIVE property=%s overlay failed: %s" % (prop, e), flush=True)
            return 2
        log("check %s tier=%s: %d harnesses, families=%s, tree=%s" % (prop, tier, len(hs), families, tree_hash(REPO)))
        try:
            build_template(scratch, logdir)
        except Inconclusive as e:
            print("INCONCLUSIVE property=%s %s" % (prop, e), flush=True)
            return 2
        results = run_all(hs, scratch, logdir, seed)
        for n, r in results.items():
            statuses[n] = classify(r, prop)
        # --- replay failures before reporting (playback generation in parallel)
        for n, (st, det) in sorted(statuses.items()):
            if st == "inconclusive":
                inconclusive.append((n, det))
        failing = [results[n]["harness"] for n, (st, _) in sorted(statuses.items()) if st == "fail"]
        pbs = run_all(failing, scratch, logdir, seed, playback=True) if failing else {}
        for h in failing:
            n = h.name
            det = statuses[n][1]
            pb = pbs[n]
            tests = [t for t in extract_playback_tests(pb["text"]) if t["kind"] != "cover" and t["name"]]
            mine_desc = set(c["desc"] for c in det)
            chosen = [t for t in tests if t["desc"] in mine_desc] or tests
            repro = {}
            if chosen:
                repro, nlog = run_playback_tests(fams, h, chosen, logdir, "cex")
            for c in det:
                ts = [t for t in chosen if t["desc"] == c["desc"]] or chosen
                ok = [t for t in ts if repro.get(t["name"], (False,))[0]]
                k = match_known(known, prop, h, c)
                unreplayable = [x for x in NO_NATIVE_REPLAY_STUBS if x in h.stubs.split(",")]
                if h.replay == "solver":
                    unreplayable.append("(harness construction: replay=solver)")
                if not ok and unreplayable and ts:
                    # #[kani::stub] is not applied by `cargo kani playback`: a harness whose
                    # oracle depends on such a stub (the recording MAC standing in for HMAC)
                    # cannot reproduce natively by construction.  The solver's counterexample
                    # (concrete values in the playback test) is reported as it is, and marked.
                    t = ts[0]
                    repro[t["name"]] = (True, "solver-only", "not natively replayable (%s); "
                                        "the concrete counterexample values are in the playback test below" % ",".join(unreplayable))
                    ok = [t]
                if not ok:
                    inconclusive.append((n, "counterexample for %r did not reproduce natively (encoding/stub error?)" % c["desc"]))
                    continue
                t = ok[0]
                rdir = os.path.join(os.environ.get("VERIF_REPLAY_DIR", os.path.join(VERIF, "replays")), prop)
                os.makedirs(rdir, exist_ok=True)
                rpath = os.path.join(rdir, "%s.%s.rs" % (h.name, hashlib.sha1(c["desc"].encode() + c["loc"].encode()).hexdigest()[:8]))
                with open(rpath, "w") as fh:
                    fh.write("// replay for property %s, harness %s (family %s)\n" % (prop, h.name, h.family))
                    fh.write("// failed check: %s\n// location: %s\n" % (c["desc"], short_loc(c["loc"])))
                    fh.write("// native outcome: %s\n" % repro[t["name"]][2].replace("\n", "\n//   "))
                    fh.write("// re-run: /verif/check %s --replay %s\n" % (prop, rpath))
                    fh.write("// @replay family=%s harness=%s\n" % (h.family, h.name))
                    fh.write(t["code"] + "\n")
                if k:
                    print("KNOWN-FINDING: property=%s %s" % (prop, k.get("what", c["desc"])), flush=True)
                    known_hits.append(k.get("what", c["desc"]))
                else:
                    violations += 1
                    print("VIOLATION property=%s replay=%s" % (prop, rpath), flush=True)
                    print("  harness=%s check=%r at %s" % (h.name, c["desc"], short_loc(c["loc"])), flush=True)
                    print("  native: %s" % repro[t["name"]][2].split("\n")[-1][:300], flush=True)
            if not chosen:
                inconclusive.append((n, "no concrete playback test could be generated"))
    finally:
        if scratch and not os.environ.get("VERIF_KEEP"):
            shutil.rmtree(scratch, ignore_errors=True)
    extra = {}
    if extra_engine is not None:
        ee = extra_engine(prop, tier, seed)
        extra = ee.get("evidence", {})
        violations += ee.get("violations", 0)
        inconclusive += ee.get("inconclusive", [])
        known_hits += ee.get("known_hits", [])
    wall = time.time() - t0
    write_evidence(prop, tier, seed, wall, results, statuses, violations, known_hits, extra)
    npass = sum(1 for s in statuses.values() if s[0] == "pass")
    log("check %s tier=%s: %d/%d harnesses pass, %d violations, %d inconclusive, %.0fs; logs %s" % (
        prop, tier, npass, len(statuses), violations, len(inconclusive), wall, logdir))
    if violations:
        return 1
    if inconclusive:
        for n, d in inconclusive:
            print("INCONCLUSIVE property=%s harness=%s: %s" % (prop, n, str(d)[:500]), flush=True)
        return 2
    if not os.environ.get("VERIF_KEEP_LOGS"):
        shutil.rmtree(logdir, ignore_errors=True)
    return 0


def do_replay(prop, path):
    fams, allh = load_registry()
    text = open(path).read()
    m = re.search(r"@replay family=(\S+) harness=(\S+)", text)
    if not m:
        log("not a replay file")
        return 2
    fam, hname = m.group(1), m.group(2)
    h = [x for x in allh if x.name == hname]
    if not h:
        log("harness %s no longer exists" % hname)
        return 2
    h = h[0]
    code = text[text.index("@replay"):].split("\n", 1)[1]
    nm = re.search(r"fn (kani_concrete_playback_\w+)\(", code).group(1)
    logdir = os.path.join(SCRATCH_BASE, "quandary-verif-logs", "replay-%d" % os.getpid())
    os.makedirs(logdir, exist_ok=True)
    out, nlog = run_playback_tests(fams, h, [{"name": nm, "code": code, "desc": "", "kind": "assertion"}], logdir, "replay")
    rep, status, msg = out[nm]
    print("replay %s: native test %s" % (path, status))
    if msg:
        print(msg)
    if rep:
        print("VIOLATION property=%s replay=%s" % (prop, path))
        return 1
    return 0 if status == "ok" else 2


def main(argv):
    if len(argv) >= 2 and argv[1] == "--list":
        fams, allh = load_registry()
        for h in allh:
            print("%-46s %-8s %-14s mem=%-4g t=%-5d %s" % (h.name, h.tier, ",".join(h.props), h.mem, h.timeout, h.family))
        return 0
    if len(argv) < 2:
        print(__doc__)
        return 2
    prop = argv[1]
    tier = os.environ.get("VERIF_TIER", "quick")
    replay = None
    i = 2
    while i < len(argv):
        if argv[i] == "--tier":
            tier = argv[i + 1]
            i += 2
        elif argv[i] == "--replay":
            replay = argv[i + 1]
            i += 2
        else:
            i += 1
    if tier not in ("quick", "thorough"):
        tier = "quick"
    if replay:
        return do_replay(prop, replay)
    extra = None
    try:
        sys.path.insert(0, os.path.join(VERIF, "lib"))
        import engines  # optional per-property extra engines (engine M)
        extra = engines.EXTRA.get(prop)
    except ImportError:
        pass
    return do_check(prop, tier, extra)


if __name__ == "__main__":
    sys.exit(main(sys.argv))
