// replay for property C11, harness c11_check_time_all (family tsig_mac)
// failed check: [C11] check_time accepts exactly |now - time signed| <= fudge
// location: kani_harness/tsig_mac.rs:938:5 in function message::tsig::kani_tsig_mac::c11_check_time_all
// native outcome: thread 'message::tsig::kani_tsig_mac::kani_concrete_playback_c11_check_time_all_14273383377511388617' (19847) panicked at /var/tmp/agent-c10/quandary-verif-11004-67273-pb/kani_harness/tsig_mac.rs:938:5:
//   [C11] check_time accepts exactly |now - time signed| <= fudge
// re-run: /verif/check C11 --replay /verif/replays/C11/c11_check_time_all.c9eb241d.rs
// @replay family=tsig_mac harness=c11_check_time_all
/// Test generated for harness `message::tsig::kani_tsig_mac::c11_check_time_all` 
///
/// Check for `assertion`: ""[C11] check_time accepts exactly |now - time signed| <= fudge""

#[test]
fn kani_concrete_playback_c11_check_time_all_14273383377511388617() {
    let concrete_vals: Vec<Vec<u8>> = vec![
        // 191
        vec![191],
        // 255
        vec![255],
        // 255
        vec![255],
        // 255
        vec![255],
        // 215
        vec![215],
        // 255
        vec![255],
        // 192
        vec![192],
        // 0
        vec![0],
        // 0
        vec![0],
        // 0
        vec![0],
        // 15
        vec![15],
        // 255
        vec![255],
        // 14336
        vec![0, 56],
    ];
    kani::concrete_playback_run(concrete_vals, c11_check_time_all);
}
