// replay for property C14, harness c14_compressed_len3 (family name_wire)
// failed check: index out of bounds: the length is less than or equal to the given index
// location: src/name/wire.rs:123:23 in function name::wire::parse_compressed_name
// native outcome: thread 'name::wire::kani_name_wire::kani_concrete_playback_c14_compressed_len3_3289899403078400008' (16201) panicked at src/name/wire.rs:123:23:
//   index out of bounds: the len is 3 but the index is 3
// re-run: /verif/check C14 --replay /verif/replays/C14/c14_compressed_len3.90e92472.rs
// @replay family=name_wire harness=c14_compressed_len3
/// Test generated for harness `name::wire::kani_name_wire::c14_compressed_len3` 
///
/// Check for `assertion`: "index out of bounds: the length is less than or equal to the given index"
///
/// # Warning
///
/// Concrete playback tests combined with stubs or contracts is highly
/// experimental, and subject to change.
///
/// The original harness has stubs which are not applied to this test.
/// This may cause a mismatch of non-deterministic values if the stub
/// creates any non-deterministic value.
/// The execution path may also differ, which can be used to refine the stub
/// logic.

#[test]
fn kani_concrete_playback_c14_compressed_len3_3289899403078400008() {
    let concrete_vals: Vec<Vec<u8>> = vec![
        // 131
        vec![131],
        // 192
        vec![192],
        // 7
        vec![7],
        // 3ul
        vec![3, 0, 0, 0, 0, 0, 0, 0],
    ];
    kani::concrete_playback_run(concrete_vals, c14_compressed_len3);
}
