// replay for property C14, harness c14_validate_skip_len8 (family name_wire)
// failed check: [C14] skip_compressed accepts a first chunk the reference rejects
// location: kani_harness/name_wire.rs:134:28 in function name::wire::kani_name_wire::uncompressed::<8>
// native outcome: thread 'name::wire::kani_name_wire::kani_concrete_playback_c14_validate_skip_len8_7725839293989072461' (10653) panicked at /var/tmp/quandary-verif-8656-40865-pb/kani_harness/name_wire.rs:134:28:
//   [C14] skip_compressed accepts a first chunk the reference rejects
// re-run: /verif/check C14 --replay /verif/replays/C14/c14_validate_skip_len8.ffda7e79.rs
// @replay family=name_wire harness=c14_validate_skip_len8
/// Test generated for harness `name::wire::kani_name_wire::c14_validate_skip_len8` 
///
/// Check for `assertion`: ""[C14] skip_compressed accepts a first chunk the reference rejects""

#[test]
fn kani_concrete_playback_c14_validate_skip_len8_7725839293989072461() {
    let concrete_vals: Vec<Vec<u8>> = vec![
        // 255
        vec![255],
        // 255
        vec![255],
        // 255
        vec![255],
        // 255
        vec![255],
        // 255
        vec![255],
        // 255
        vec![255],
        // 255
        vec![255],
        // 255
        vec![255],
        // 1ul
        vec![1, 0, 0, 0, 0, 0, 0, 0],
    ];
    kani::concrete_playback_run(concrete_vals, c14_validate_skip_len8);
}
