// replay for property C19, harness c19_ns_pair_3_4 (family rdata_eq)
// failed check: [C19] equals is symmetric
// location: kani_harness/rdata_eq.rs:212:5 in function rr::rdata::kani_rdata_eq::pair::<3, 4>
// native outcome: thread 'rr::rdata::kani_rdata_eq::kani_concrete_playback_c19_ns_pair_3_4_8304841896066899991' (12525) panicked at /var/tmp/quandary-verif-32117-89577-pb/kani_harness/rdata_eq.rs:212:5:
//   [C19] equals is symmetric
// re-run: /verif/check C19 --replay /verif/replays/C19/c19_ns_pair_3_4.d7823725.rs
// @replay family=rdata_eq harness=c19_ns_pair_3_4
/// Test generated for harness `rr::rdata::kani_rdata_eq::c19_ns_pair_3_4` 
///
/// Check for `assertion`: ""[C19] equals is symmetric""
///
/// # Warning
///
/// Concrete playback tests combined with stubs or contracts is highly
/// experimental, and subject to change.
///
/// The original harness has stubs which are not applied to this test.
/// This may cause a mismatch of non-deterministic values if the stub
/// creates any non-deterministic value.
/// The execution path may also differ, which can be used to refine the stub
/// logic.

#[test]
fn kani_concrete_playback_c19_ns_pair_3_4_8304841896066899991() {
    let concrete_vals: Vec<Vec<u8>> = vec![
        // 0
        vec![0, 0],
        // 1
        vec![1],
        // 0
        vec![0],
        // 0
        vec![0],
        // 1
        vec![1],
        // 0
        vec![0],
        // 0
        vec![0],
        // 60
        vec![60],
    ];
    kani::concrete_playback_run(concrete_vals, c19_ns_pair_3_4);
}
