// replay for property C17, harness c17_type_mnemonics_any_case (family codes)
// failed check: [C17] TYPE mnemonic parses to its code in any letter case
// location: kani_harness/codes.rs:251:5 in function rr::rr_type::kani_codes::type_mnemonic_parses
// native outcome: thread 'rr::rr_type::kani_codes::kani_concrete_playback_c17_type_mnemonics_any_case_17952573830477491263' (6795) panicked at /var/tmp/quandary-verif-30292-45986-pb/kani_harness/codes.rs:251:5:
//   [C17] TYPE mnemonic parses to its code in any letter case
// re-run: /verif/check C17 --replay /verif/replays/C17/c17_type_mnemonics_any_case.45512541.rs
// @replay family=codes harness=c17_type_mnemonics_any_case
/// Test generated for harness `rr::rr_type::kani_codes::c17_type_mnemonics_any_case` 
///
/// Check for `assertion`: ""[C17] TYPE mnemonic parses to its code in any letter case""

#[test]
fn kani_concrete_playback_c17_type_mnemonics_any_case_17952573830477491263() {
    let concrete_vals: Vec<Vec<u8>> = vec![
        // 26
        vec![26],
        // 5ul
        vec![5, 0, 0, 0, 0, 0, 0, 0],
    ];
    kani::concrete_playback_run(concrete_vals, c17_type_mnemonics_any_case);
}
