// replay for property C17, harness c17_qtype_mnemonics_any_case (family codes)
// failed check: [C17] QTYPE mnemonic parses to its code in any letter case
// location: kani_harness/codes.rs:287:5 in function rr::rr_type::kani_codes::qtype_mnemonic_parses
// native outcome: thread 'rr::rr_type::kani_codes::kani_concrete_playback_c17_qtype_mnemonics_any_case_7551331243710004613' (5234) panicked at /var/tmp/quandary-verif-30292-45897-pb/kani_harness/codes.rs:287:5:
//   [C17] QTYPE mnemonic parses to its code in any letter case
// re-run: /verif/check C17 --replay /verif/replays/C17/c17_qtype_mnemonics_any_case.1af606aa.rs
// @replay family=codes harness=c17_qtype_mnemonics_any_case
/// Test generated for harness `rr::rr_type::kani_codes::c17_qtype_mnemonics_any_case` 
///
/// Check for `assertion`: ""[C17] QTYPE mnemonic parses to its code in any letter case""

#[test]
fn kani_concrete_playback_c17_qtype_mnemonics_any_case_7551331243710004613() {
    let concrete_vals: Vec<Vec<u8>> = vec![
        // 2
        vec![2],
        // 4ul
        vec![4, 0, 0, 0, 0, 0, 0, 0],
    ];
    kani::concrete_playback_run(concrete_vals, c17_qtype_mnemonics_any_case);
}
