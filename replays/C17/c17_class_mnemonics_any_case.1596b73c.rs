// replay for property C17, harness c17_class_mnemonics_any_case (family codes)
// failed check: [C17] QCLASS mnemonic parses to its code in any letter case
// location: kani_harness/codes.rs:331:5 in function rr::rr_type::kani_codes::class_mnemonic_parses
// native outcome: thread 'rr::rr_type::kani_codes::kani_concrete_playback_c17_class_mnemonics_any_case_8975716722457703812' (3758) panicked at /var/tmp/quandary-verif-30292-45844-pb/kani_harness/codes.rs:331:5:
//   [C17] QCLASS mnemonic parses to its code in any letter case
// re-run: /verif/check C17 --replay /verif/replays/C17/c17_class_mnemonics_any_case.1596b73c.rs
// @replay family=codes harness=c17_class_mnemonics_any_case
/// Test generated for harness `rr::rr_type::kani_codes::c17_class_mnemonics_any_case` 
///
/// Check for `assertion`: ""[C17] QCLASS mnemonic parses to its code in any letter case""

#[test]
fn kani_concrete_playback_c17_class_mnemonics_any_case_8975716722457703812() {
    let concrete_vals: Vec<Vec<u8>> = vec![
        // 12
        vec![12],
        // 1ul
        vec![1, 0, 0, 0, 0, 0, 0, 0],
        // 1ul
        vec![1, 0, 0, 0, 0, 0, 0, 0],
    ];
    kani::concrete_playback_run(concrete_vals, c17_class_mnemonics_any_case);
}
