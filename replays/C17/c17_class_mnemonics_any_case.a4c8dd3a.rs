// replay for property C17, harness c17_class_mnemonics_any_case (family codes)
// failed check: [C17] CLASS mnemonic parses to its code in any letter case
// location: kani_harness/codes.rs:320:5 in function rr::rr_type::kani_codes::class_mnemonic_parses
// native outcome: thread 'rr::rr_type::kani_codes::kani_concrete_playback_c17_class_mnemonics_any_case_4512081694177781223' (3757) panicked at /var/tmp/quandary-verif-30292-45844-pb/kani_harness/codes.rs:320:5:
//   [C17] CLASS mnemonic parses to its code in any letter case
// re-run: /verif/check C17 --replay /verif/replays/C17/c17_class_mnemonics_any_case.a4c8dd3a.rs
// @replay family=codes harness=c17_class_mnemonics_any_case
/// Test generated for harness `rr::rr_type::kani_codes::c17_class_mnemonics_any_case` 
///
/// Check for `assertion`: ""[C17] CLASS mnemonic parses to its code in any letter case""

#[test]
fn kani_concrete_playback_c17_class_mnemonics_any_case_4512081694177781223() {
    let concrete_vals: Vec<Vec<u8>> = vec![
        // 14
        vec![14],
        // 2ul
        vec![2, 0, 0, 0, 0, 0, 0, 0],
    ];
    kani::concrete_playback_run(concrete_vals, c17_class_mnemonics_any_case);
}
