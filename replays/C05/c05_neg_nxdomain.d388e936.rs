// replay for property C05, harness c05_neg_nxdomain (family query)
// failed check: [C05,C04] a mandatory record of the reference answer is missing, duplicated or differs (section, owner, type, TTL or RDATA)
// location: kani_harness/query.rs:947:13 in function server::query::kani_query::check_response
// native outcome: thread 'server::query::kani_query::kani_concrete_playback_c05_neg_nxdomain_9576365871357112321' (1265) panicked at /var/tmp/agent-c05/quandary-verif-20355-63621-pb/kani_harness/query.rs:947:13:
//   [C05,C04] a mandatory record of the reference answer is missing, duplicated or differs (section, owner, type, TTL or RDATA)
// re-run: /verif/check C05 --replay /verif/replays/C05/c05_neg_nxdomain.d388e936.rs
// @replay family=query harness=c05_neg_nxdomain
/// Test generated for harness `server::query::kani_query::c05_neg_nxdomain` 
///
/// Check for `assertion`: ""[C05,C04] a mandatory record of the reference answer is missing, duplicated or differs (section, owner, type, TTL or RDATA)""
///
/// # Warning
///
/// Concrete playback tests combined with stubs or contracts is highly
/// experimental, and subject to change.
///
/// The original harness has stubs which are not applied to this test.
/// This may cause a mismatch of non-deterministic values if the stub
/// creates any non-deterministic value.
/// The execution path may also differ, which can be used to refine the stub
/// logic.

#[test]
fn kani_concrete_playback_c05_neg_nxdomain_9576365871357112321() {
    let concrete_vals: Vec<Vec<u8>> = vec![
        // 2147483646
        vec![254, 255, 255, 127],
        // 255
        vec![255],
        // 253
        vec![253],
        // 1
        vec![1],
        // 128
        vec![128],
        // 127
        vec![127],
        // 255
        vec![255],
        // 255
        vec![255],
        // 255
        vec![255],
        // 1
        vec![1],
    ];
    kani::concrete_playback_run(concrete_vals, c05_neg_nxdomain);
}
