// replay for property C01, harness c01_set_tsig_overflow_1_255_255 (family tsig_reserve)
// failed check: [C01] D7: the TSIG RR of the error response does not fit the 512-octet UDP response; the server's set_tsig(...).unwrap() panics
// location: kani_harness/tsig_reserve.rs:281:5 in function server::kani_tsig_reserve::set_tsig_reservation::<1, 255, 255>
// native outcome: thread 'server::kani_tsig_reserve::kani_concrete_playback_c01_set_tsig_overflow_1_255_255_14235192134084676378' (18375) panicked at /var/tmp/agent-c10/quandary-verif-10835-82264-pb/kani_harness/tsig_reserve.rs:281:5:
//   [C01] D7: the TSIG RR of the error response does not fit the 512-octet UDP response; the server's set_tsig(...).unwrap() panics
// re-run: /verif/check C01 --replay /verif/replays/C01/c01_set_tsig_overflow_1_255_255.c0ded2da.rs
// @replay family=tsig_reserve harness=c01_set_tsig_overflow_1_255_255
/// Test generated for harness `server::kani_tsig_reserve::c01_set_tsig_overflow_1_255_255` 
///
/// Check for `assertion`: ""[C01] D7: the TSIG RR of the error response does not fit the 512-octet UDP response; the server's set_tsig(...).unwrap() panics""

#[test]
fn kani_concrete_playback_c01_set_tsig_overflow_1_255_255_14235192134084676378() {
    let concrete_vals: Vec<Vec<u8>> = vec![
        // 255
        vec![255],
        // 255
        vec![255],
        // 255
        vec![255],
        // 255
        vec![255],
        // 255
        vec![255],
        // 255
        vec![255],
        // 65535
        vec![255, 255],
    ];
    kani::concrete_playback_run(concrete_vals, c01_set_tsig_overflow_1_255_255);
}
