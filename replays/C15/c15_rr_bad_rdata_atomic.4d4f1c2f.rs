// replay for property C15, harness c15_rr_bad_rdata_atomic (family reader)
// failed check: [C15] a failed record read leaves the read position unchanged
// location: kani_harness/reader.rs:786:13 in function message::reader::kani_reader::read_rr_at
// native outcome: thread 'message::reader::kani_reader::kani_concrete_playback_c15_rr_bad_rdata_atomic_1204785350548348043' (29832) panicked at /var/tmp/quandary-verif-15890-79431-pb/kani_harness/reader.rs:786:13:
//   [C15] a failed record read leaves the read position unchanged
// re-run: /verif/check C15 --replay /verif/replays/C15/c15_rr_bad_rdata_atomic.4d4f1c2f.rs
// @replay family=reader harness=c15_rr_bad_rdata_atomic
/// Test generated for harness `message::reader::kani_reader::c15_rr_bad_rdata_atomic` 
///
/// Check for `assertion`: ""[C15] a failed record read leaves the read position unchanged""
///
/// # Warning
///
/// Concrete playback tests combined with stubs or contracts is highly
/// experimental, and subject to change.
///
/// The original harness has stubs which are not applied to this test.
/// This may cause a mismatch of non-deterministic values if the stub
/// creates any non-deterministic value.
/// The execution path may also differ, which can be used to refine the stub
/// logic.

#[test]
fn kani_concrete_playback_c15_rr_bad_rdata_atomic_1204785350548348043() {
    let concrete_vals: Vec<Vec<u8>> = vec![
        // 0
        vec![0],
        // 0
        vec![0],
        // 0
        vec![0],
        // 0
        vec![0],
        // 0
        vec![0],
        // 0
        vec![0],
        // 0
        vec![0],
        // 0
        vec![0],
        // 0
        vec![0],
        // 0
        vec![0],
        // 0
        vec![0],
        // 0
        vec![0],
        // 0
        vec![0],
        // 0
        vec![0],
        // 0
        vec![0],
        // 0
        vec![0],
        // 0
        vec![0],
        // 0
        vec![0],
        // 0
        vec![0],
        // 0
        vec![0],
        // 0
        vec![0],
    ];
    kani::concrete_playback_run(concrete_vals, c15_rr_bad_rdata_atomic);
}
