// replay for property C15, harness c15_peek_rr_drop_any28 (family reader)
// failed check: This is a placeholder message; Kani doesn't support message formatted at runtime
// location: std:core/src/slice/index.rs:41:9 in function core::slice::index::slice_index_fail::do_panic::runtime
// native outcome: thread 'message::reader::kani_reader::kani_concrete_playback_c15_peek_rr_drop_any28_4061520198564172208' (28147) panicked at src/message/reader.rs:229:45:
//   range start index 22 out of range for slice of length 15
// re-run: /verif/check C15 --replay /verif/replays/C15/c15_peek_rr_drop_any28.1bf5e8f2.rs
// @replay family=reader harness=c15_peek_rr_drop_any28
/// Test generated for harness `message::reader::kani_reader::c15_peek_rr_drop_any28` 
///
/// Check for `assertion`: "This is a placeholder message; Kani doesn't support message formatted at runtime"

#[test]
fn kani_concrete_playback_c15_peek_rr_drop_any28_4061520198564172208() {
    let concrete_vals: Vec<Vec<u8>> = vec![
        // 193
        vec![193],
        // 0
        vec![0],
        // 33
        vec![33],
        // 192
        vec![192],
        // 192
        vec![192],
        // 192
        vec![192],
        // 197
        vec![197],
        // 197
        vec![197],
        // 192
        vec![192],
        // 192
        vec![192],
        // 192
        vec![192],
        // 192
        vec![192],
        // 192
        vec![192],
        // 4
        vec![4],
        // 4
        vec![4],
        // 0
        vec![0],
        // 17
        vec![17],
        // 227
        vec![227],
        // 0
        vec![0],
        // 1
        vec![1],
        // 20
        vec![20],
        // 0
        vec![0],
        // 0
        vec![0],
        // 33
        vec![33],
        // 134
        vec![134],
        // 0
        vec![0],
        // 36
        vec![36],
        // 216
        vec![216],
        // 15ul
        vec![15, 0, 0, 0, 0, 0, 0, 0],
    ];
    kani::concrete_playback_run(concrete_vals, c15_peek_rr_drop_any28);
}
