// replay for property C15, harness c15_peek_rr_skip_any28 (family reader)
// failed check: This is a placeholder message; Kani doesn't support message formatted at runtime
// location: std:core/src/slice/index.rs:41:9 in function core::slice::index::slice_index_fail::do_panic::runtime
// native outcome: thread 'message::reader::kani_reader::kani_concrete_playback_c15_peek_rr_skip_any28_3801995454158682531' (29480) panicked at src/message/reader.rs:229:45:
//   range start index 21 out of range for slice of length 13
// re-run: /verif/check C15 --replay /verif/replays/C15/c15_peek_rr_skip_any28.1bf5e8f2.rs
// @replay family=reader harness=c15_peek_rr_skip_any28
/// Test generated for harness `message::reader::kani_reader::c15_peek_rr_skip_any28` 
///
/// Check for `assertion`: "This is a placeholder message; Kani doesn't support message formatted at runtime"

#[test]
fn kani_concrete_playback_c15_peek_rr_skip_any28_3801995454158682531() {
    let concrete_vals: Vec<Vec<u8>> = vec![
        // 0
        vec![0],
        // 0
        vec![0],
        // 0
        vec![0],
        // 0
        vec![0],
        // 0
        vec![0],
        // 0
        vec![0],
        // 0
        vec![0],
        // 0
        vec![0],
        // 0
        vec![0],
        // 0
        vec![0],
        // 0
        vec![0],
        // 0
        vec![0],
        // 0
        vec![0],
        // 254
        vec![254],
        // 254
        vec![254],
        // 254
        vec![254],
        // 0
        vec![0],
        // 0
        vec![0],
        // 0
        vec![0],
        // 4
        vec![4],
        // 0
        vec![0],
        // 64
        vec![64],
        // 0
        vec![0],
        // 0
        vec![0],
        // 0
        vec![0],
        // 0
        vec![0],
        // 0
        vec![0],
        // 0
        vec![0],
        // 13ul
        vec![13, 0, 0, 0, 0, 0, 0, 0],
    ];
    kani::concrete_playback_run(concrete_vals, c15_peek_rr_skip_any28);
}
