// replay for property C15, harness c15_skip_rr_any28 (family reader)
// failed check: This is a placeholder message; Kani doesn't support message formatted at runtime
// location: std:core/src/slice/index.rs:41:9 in function core::slice::index::slice_index_fail::do_panic::runtime
// native outcome: thread 'message::reader::kani_reader::kani_concrete_playback_c15_skip_rr_any28_12066927204019353394' (30419) panicked at src/message/reader.rs:209:45:
//   range start index 22 out of range for slice of length 14
// re-run: /verif/check C15 --replay /verif/replays/C15/c15_skip_rr_any28.1bf5e8f2.rs
// @replay family=reader harness=c15_skip_rr_any28
/// Test generated for harness `message::reader::kani_reader::c15_skip_rr_any28` 
///
/// Check for `assertion`: "This is a placeholder message; Kani doesn't support message formatted at runtime"

#[test]
fn kani_concrete_playback_c15_skip_rr_any28_12066927204019353394() {
    let concrete_vals: Vec<Vec<u8>> = vec![
        // 255
        vec![255],
        // 255
        vec![255],
        // 255
        vec![255],
        // 255
        vec![255],
        // 255
        vec![255],
        // 255
        vec![255],
        // 255
        vec![255],
        // 255
        vec![255],
        // 255
        vec![255],
        // 255
        vec![255],
        // 255
        vec![255],
        // 255
        vec![255],
        // 255
        vec![255],
        // 255
        vec![255],
        // 255
        vec![255],
        // 255
        vec![255],
        // 255
        vec![255],
        // 255
        vec![255],
        // 255
        vec![255],
        // 255
        vec![255],
        // 255
        vec![255],
        // 255
        vec![255],
        // 0
        vec![0],
        // 7
        vec![7],
        // 255
        vec![255],
        // 255
        vec![255],
        // 255
        vec![255],
        // 255
        vec![255],
        // 14ul
        vec![14, 0, 0, 0, 0, 0, 0, 0],
    ];
    kani::concrete_playback_run(concrete_vals, c15_skip_rr_any28);
}
