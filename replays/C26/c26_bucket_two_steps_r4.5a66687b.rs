// replay for property C26, harness c26_bucket_two_steps_r4 (family rrl)
// failed check: attempt to multiply with overflow
// location: src/server/rrl.rs:380:37 in function server::rrl::Rrl::process_response::<()>
// native outcome: thread 'server::rrl::kani_rrl::kani_concrete_playback_c26_bucket_two_steps_r4_8138903274527780028' (24987) panicked at src/server/rrl.rs:380:37:
//   attempt to multiply with overflow
// re-run: /verif/check C26 --replay /verif/replays/C26/c26_bucket_two_steps_r4.5a66687b.rs
// @replay family=rrl harness=c26_bucket_two_steps_r4
/// Test generated for harness `server::rrl::kani_rrl::c26_bucket_two_steps_r4` 
///
/// Check for `assertion`: "attempt to multiply with overflow"
///
/// # Warning
///
/// Concrete playback tests combined with stubs or contracts is highly
/// experimental, and subject to change.
///
/// The original harness has stubs which are not applied to this test.
/// This may cause a mismatch of non-deterministic values if the stub
/// creates any non-deterministic value.
/// The execution path may also differ, which can be used to refine the stub
/// logic.

#[test]
fn kani_concrete_playback_c26_bucket_two_steps_r4_8138903274527780028() {
    let concrete_vals: Vec<Vec<u8>> = vec![
        // 3
        vec![3, 0, 0, 0],
        // 4
        vec![4, 0, 0, 0],
        // 3
        vec![3, 0, 0, 0],
        // 1024
        vec![0, 4, 0, 0],
        // 0ul
        vec![0, 0, 0, 0, 0, 0, 0, 0],
        // 3
        vec![3],
        // 1
        vec![1],
        // 15569256447ul
        vec![255, 255, 255, 159, 3, 0, 0, 0],
        // 534113151
        vec![127, 235, 213, 31],
        // 3
        vec![3],
        // 2130706432ul
        vec![0, 0, 0, 127, 0, 0, 0, 0],
        // 0
        vec![0],
        // 0
        vec![0, 0, 0, 0],
        // 4096
        vec![0, 16, 0, 0],
        // 3221225472ul
        vec![0, 0, 0, 192, 0, 0, 0, 0],
        // 201326592
        vec![0, 0, 0, 12],
    ];
    kani::concrete_playback_run(concrete_vals, c26_bucket_two_steps_r4);
}
