// replay for property C26, harness c26_bucket_two_steps_r4 (family rrl)
// failed check: [C26] bucket count equals the reference bucket's
// location: kani_harness/rrl.rs:579:5 in function server::rrl::kani_rrl::c26_compare
// native outcome: thread 'server::rrl::kani_rrl::kani_concrete_playback_c26_bucket_two_steps_r4_1411835926296447800' (24985) panicked at /var/tmp/quandary-verif-5850-62967-pb/kani_harness/rrl.rs:579:5:
//   [C26] bucket count equals the reference bucket's
// re-run: /verif/check C26 --replay /verif/replays/C26/c26_bucket_two_steps_r4.ec77b01d.rs
// @replay family=rrl harness=c26_bucket_two_steps_r4
/// Test generated for harness `server::rrl::kani_rrl::c26_bucket_two_steps_r4` 
///
/// Check for `assertion`: ""[C26] bucket count equals the reference bucket's""
///
/// # Warning
///
/// Concrete playback tests combined with stubs or contracts is highly
/// experimental, and subject to change.
///
/// The original harness has stubs which are not applied to this test.
/// This may cause a mismatch of non-deterministic values if the stub
/// creates any non-deterministic value.
/// The execution path may also differ, which can be used to refine the stub
/// logic.

#[test]
fn kani_concrete_playback_c26_bucket_two_steps_r4_1411835926296447800() {
    let concrete_vals: Vec<Vec<u8>> = vec![
        // 1
        vec![1, 0, 0, 0],
        // 1
        vec![1, 0, 0, 0],
        // 4
        vec![4, 0, 0, 0],
        // 1024
        vec![0, 4, 0, 0],
        // 1ul
        vec![1, 0, 0, 0, 0, 0, 0, 0],
        // 2
        vec![2],
        // 1
        vec![1],
        // 1ul
        vec![1, 0, 0, 0, 0, 0, 0, 0],
        // 243897847
        vec![247, 149, 137, 14],
        // 1
        vec![1],
        // 2130706432ul
        vec![0, 0, 0, 127, 0, 0, 0, 0],
        // 0
        vec![0],
        // 0
        vec![0, 0, 0, 0],
        // 512
        vec![0, 2, 0, 0],
        // 34359738368ul
        vec![0, 0, 0, 0, 8, 0, 0, 0],
        // 298320384
        vec![0, 2, 200, 17],
    ];
    kani::concrete_playback_run(concrete_vals, c26_bucket_two_steps_r4);
}
