// replay for property C26, harness c26_bucket_two_steps_r4 (family rrl)
// failed check: [C26] the reference bucket has a token: the response is sent
// location: kani_harness/rrl.rs:567:9 in function server::rrl::kani_rrl::c26_compare
// native outcome: thread 'server::rrl::kani_rrl::kani_concrete_playback_c26_bucket_two_steps_r4_4629069544367799681' (24986) panicked at /var/tmp/quandary-verif-5850-62967-pb/kani_harness/rrl.rs:567:9:
//   [C26] the reference bucket has a token: the response is sent
// re-run: /verif/check C26 --replay /verif/replays/C26/c26_bucket_two_steps_r4.191b6507.rs
// @replay family=rrl harness=c26_bucket_two_steps_r4
/// Test generated for harness `server::rrl::kani_rrl::c26_bucket_two_steps_r4` 
///
/// Check for `assertion`: ""[C26] the reference bucket has a token: the response is sent""
///
/// # Warning
///
/// Concrete playback tests combined with stubs or contracts is highly
/// experimental, and subject to change.
///
/// The original harness has stubs which are not applied to this test.
/// This may cause a mismatch of non-deterministic values if the stub
/// creates any non-deterministic value.
/// The execution path may also differ, which can be used to refine the stub
/// logic.

#[test]
fn kani_concrete_playback_c26_bucket_two_steps_r4_4629069544367799681() {
    let concrete_vals: Vec<Vec<u8>> = vec![
        // 2
        vec![2, 0, 0, 0],
        // 1
        vec![1, 0, 0, 0],
        // 1
        vec![1, 0, 0, 0],
        // 513
        vec![1, 2, 0, 0],
        // 2ul
        vec![2, 0, 0, 0, 0, 0, 0, 0],
        // 0
        vec![0],
        // 0
        vec![0],
        // 48236337279ul
        vec![127, 24, 28, 59, 11, 0, 0, 0],
        // 843318272
        vec![0, 4, 68, 50],
        // 0
        vec![0],
        // 2130706432ul
        vec![0, 0, 0, 127, 0, 0, 0, 0],
        // 0
        vec![0],
        // 3516420854
        vec![246, 82, 152, 209],
        // 1026
        vec![2, 4, 0, 0],
        // 34359738368ul
        vec![0, 0, 0, 0, 8, 0, 0, 0],
        // 843231996
        vec![252, 178, 66, 50],
        // 1
        vec![1],
    ];
    kani::concrete_playback_run(concrete_vals, c26_bucket_two_steps_r4);
}
