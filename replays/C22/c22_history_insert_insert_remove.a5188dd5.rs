// replay for property C22, harness c22_history_insert_insert_remove (family catalog_tree)
// failed check: [C22] removing one entry never removes or alters any other entry (get a.)
// location: kani_harness/catalog_tree.rs:385:5 in function db::hash_map_tree::catalog::kani_catalog_tree::c22_history_insert_insert_remove
// native outcome: thread 'db::hash_map_tree::catalog::kani_catalog_tree::kani_concrete_playback_c22_history_insert_insert_remove_1063199610834273973' (3772) panicked at /var/tmp/agent-c22/quandary-verif-31150-92140-pb/kani_harness/catalog_tree.rs:385:5:
//   [C22] removing one entry never removes or alters any other entry (get a.)
// re-run: /verif/check C22 --replay /verif/replays/C22/c22_history_insert_insert_remove.a5188dd5.rs
// @replay family=catalog_tree harness=c22_history_insert_insert_remove
/// Test generated for harness `db::hash_map_tree::catalog::kani_catalog_tree::c22_history_insert_insert_remove` 
///
/// Check for `assertion`: ""[C22] removing one entry never removes or alters any other entry (get a.)""
///
/// # Warning
///
/// Concrete playback tests combined with stubs or contracts is highly
/// experimental, and subject to change.
///
/// The original harness has stubs which are not applied to this test.
/// This may cause a mismatch of non-deterministic values if the stub
/// creates any non-deterministic value.
/// The execution path may also differ, which can be used to refine the stub
/// logic.

#[test]
fn kani_concrete_playback_c22_history_insert_insert_remove_1063199610834273973() {
    let concrete_vals: Vec<Vec<u8>> = vec![
        // 0
        vec![0],
        // 0
        vec![0],
    ];
    kani::concrete_playback_run(concrete_vals, c22_history_insert_insert_remove);
}
