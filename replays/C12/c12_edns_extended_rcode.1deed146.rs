// replay for property C12, harness c12_edns_extended_rcode (family writer)
// failed check: [C12] 12-bit extended RCODE = OPT TTL[31:24] << 4 | header RCODE
// location: kani_harness/writer.rs:576:5 in function message::writer::kani_writer::edns_rcode::<false>
// native outcome: thread 'message::writer::kani_writer::kani_concrete_playback_c12_edns_extended_rcode_1251264222905181537' (13409) panicked at /var/tmp/agent-c12/scratch/quandary-verif-26399-73562-pb/kani_harness/writer.rs:576:5:
//   [C12] 12-bit extended RCODE = OPT TTL[31:24] << 4 | header RCODE
// re-run: /verif/check C12 --replay /verif/replays/C12/c12_edns_extended_rcode.1deed146.rs
// @replay family=writer harness=c12_edns_extended_rcode
/// Test generated for harness `message::writer::kani_writer::c12_edns_extended_rcode` 
///
/// Check for `assertion`: ""[C12] 12-bit extended RCODE = OPT TTL[31:24] << 4 | header RCODE""

#[test]
fn kani_concrete_playback_c12_edns_extended_rcode_1251264222905181537() {
    let concrete_vals: Vec<Vec<u8>> = vec![
        // 65535
        vec![255, 255],
        // 4095
        vec![255, 15],
        // 65535
        vec![255, 255],
    ];
    kani::concrete_playback_run(concrete_vals, c12_edns_extended_rcode);
}
